"""C15 - a server that stops mid-conversation never hangs or spins the client."""
import json, struct
import common, sim, proto, c10
from common import run_model, res_decode, exn_name

RULE = ('every prefix length 0..N of the reference server byte streams (status exchange with ping; status query then login on a second '
        'connection; login with compression then play; login with encryption then play; play traffic), each followed by end of '
        'stream, through the simulated transport with the real reactors: the networking thread must terminate (a read budget after end '
        'of stream detects spinning, a read with nothing available detects blocking), report EOFError through the handlers or take the '
        'documented fallback to the default version after an unanswered status query, and deliver to listeners exactly the frames '
        'wholly contained in the prefix (cross-checked with the extracted model reader on the plaintext prefix). '
        'Non-trivial = prefix ending strictly inside a frame; distinct by (stream, prefix length).')


def streams(rng, secret):
    """name -> (connection factory args, list of per-connection (frames, cut, thr-less info))"""
    out = {}
    ids = proto.Ids(757)
    status = {'version': {'name': 'x', 'protocol': 757}, 'players': {'online': 3}}
    t_ping = int(1000 * (1000.0 + 0.0371))
    out['status'] = dict(kind='status', pv=757, conns=[([proto.frame(0, proto.string(json.dumps(status))), proto.frame(1, struct.pack('>q', t_ping))], None)])
    login_plain = [proto.frame(ids.login_success, ids.b_login_success()), proto.frame(ids.keep_alive, ids.b_keep_alive(77))]
    out['status+login'] = dict(kind='connect', allowed=[340, 757], pv=757, initial=340,
                               conns=[([proto.frame(0, proto.string(json.dumps(status)))], None), (login_plain, None)])
    # the default version need not be one of the allowed ones
    out['status+login/default-outside'] = dict(kind='connect', allowed=[340, 757], pv=757, initial=498,
                               conns=[([proto.frame(0, proto.string(json.dumps(status)))], None), (login_plain, None)])
    # no default configured: the fallback is the latest allowed version
    out['status+login/no-default'] = dict(kind='connect', allowed=[340, 757], pv=757, initial=None,
                               conns=[([proto.frame(0, proto.string(json.dumps(status)))], None), (login_plain, None)])
    frames, cut = c10.build_server(ids, [('comp', 64), ('plugin', 5, 'a:b', b'xyz'), ('success',), ('ka', 1), ('ka', 2)])
    big = proto.frame(ids.chat, proto.string('{"text":"%s"}' % ('z' * 200)) + b'\x00' + bytes(16), 64)
    out['login+compression'] = dict(kind='connect', allowed=[757], pv=757, conns=[(frames + [big, proto.frame(ids.keep_alive, ids.b_keep_alive(3), 64)], None)])
    frames, cut = c10.build_server(ids, [('enc', '-', b'tok1'), ('comp', 256), ('success',), ('ka', 9), ('ka', 10)])
    out['login+encryption'] = dict(kind='connect', allowed=[757], pv=757, conns=[(frames, cut)], secret=secret)
    ids47 = proto.Ids(47)
    play = [proto.frame(ids47.login_success, ids47.b_login_success()), proto.frame(ids47.keep_alive, proto.varint(300)),
            proto.frame(ids47.position_look, ids47.b_position_look(1.5, 64.0, -2.5, 90.0, 0.0, 0, 0)),
            proto.frame(0x7e, b'unknown-frame-content'), proto.frame(ids47.keep_alive, proto.varint(5)),
            proto.frame(ids47.play_disconnect, proto.string('{"text":"bye"}'))]
    out['play'] = dict(kind='connect', allowed=[47], pv=47, conns=[(play, None)])
    # at protocol 47 the server may dictate the compression threshold in the play state too (threshold 0: every packet compressed)
    from minecraft.networking.packets import clientbound as cb_
    sc_id = cb_.play.SetCompressionPacket.get_id(ids47.ctx)
    for thr_p in (0, 64):
        pc = [proto.frame(ids47.login_success, ids47.b_login_success()), proto.frame(ids47.keep_alive, proto.varint(21)), proto.frame(sc_id, proto.varint(thr_p)),
              proto.frame(ids47.keep_alive, proto.varint(22), thr_p), proto.frame(0x7e, b'opaque' * 20, thr_p), proto.frame(ids47.keep_alive, proto.varint(23), thr_p),
              proto.frame(ids47.play_disconnect, proto.string('{"text":"bye"}'), thr_p)]
        out['play+set-compression-%d' % thr_p] = dict(kind='connect', allowed=[47], pv=47, conns=[(pc, None)])
    # a conversation with one large frame (a chunk-sized unknown packet): buffering boundaries inside a frame
    large = [proto.frame(ids47.login_success, ids47.b_login_success()), proto.frame(ids47.keep_alive, proto.varint(1)),
             proto.frame(0x7e, bytes((i * 7) % 251 for i in range(20011))), proto.frame(ids47.keep_alive, proto.varint(2))]
    out['play+large-frame'] = dict(kind='connect', allowed=[47], pv=47, conns=[(large, None)])
    return out


def run(chk):
    common.standard_proof(chk, 'Properties/C15.v')
    from minecraft.networking.connection import Connection
    from minecraft.networking.packets import Packet
    rng, th = chk.rng, chk.tier == 'thorough'
    secret = bytes(range(100, 116))
    S = streams(rng, secret)
    # ciphertext of the encrypted scenario
    enc = S['login+encryption']
    frames, cut = enc['conns'][0]
    plain = b''.join(frames)
    ct = bytes(run_model([('mc_encrypt', [secret, [plain[cut:]]])])[0][0])
    enc['wire'] = [plain[:cut] + ct]
    jobs = []
    for name, sc in S.items():
        wires = sc.get('wire') or [b''.join(fr) for fr, _c in sc['conns']]
        for ci, wire in enumerate(wires):
            n = len(wire)
            ks = range(n + 1) if (th or n <= 400) else sorted(set(list(range(0, n + 1, 3)) + [n]))
            if n > 3000:
                ends, o = [], 0
                for f in sc['conns'][ci][0]:
                    o += len(f)
                    ends += [o - 1, o, o + 1]
                pts = [0, 1, 2, 3, 4, 5, n - 1, n] + ends + [b + d for b in (4096, 8192, 16384) for d in (-1, 0, 1)] + [b + 60 + d for b in (8192, 16384) for d in (-1, 0, 1)]
                pts += [rng.randrange(n) for _ in range(120 if th else 40)]
                ks = sorted(set(p for p in pts if 0 <= p <= n))
            for k in ks:
                jobs.append((name, sc, ci, k, wires, None))
            # the peer is gone altogether: besides the end of stream, the client's own writes start failing (EPIPE) after a few sends
            if name in ('login+compression', 'login+encryption', 'play', 'play+large-frame'):
                o, ends = 0, [0]
                for f in sc['conns'][ci][0]:
                    o += len(f)
                    ends.append(o)
                for k in sorted(set(ends[:4] + [1, 2, ends[1] + 1])):
                    for gone in (0, 1, 2, 3):
                        jobs.append((name, sc, ci, k, wires, gone))
    model_reqs, model_idx = [], []
    for name, sc, ci, k, wires, gone in jobs:
        frames = sc['conns'][ci][0]
        ends, o = [], 0
        for f in frames:
            o += len(f)
            ends.append(o)
        complete = sum(1 for e in ends if e <= k)
        inside = k not in [0] + ends
        chunks = []
        servers = []
        for j, w in enumerate(wires):
            if j < ci:
                servers.append(sim.Server([w], end='idle'))
            elif j == ci:
                servers.append(sim.Server([w[:k]] if rng.random() < 0.5 or k < 2 else [w[:k // 2], w[k // 2:k]], end='eof', fail_send_after=gone))
            else:
                servers.append(sim.Server([w], end='idle'))
        servers.append(sim.Server([], end='idle'))
        # ... and afterwards the same Connection object holds the whole conversation again with a healthy server
        again_at = len(servers)
        # (reactive servers: a status handshake is answered with the status conversation, a login handshake with the login one -
        #  whether the client queries the status again depends on what it negotiated the first time)
        status_i = 0 if (sc['kind'] == 'status' or name.startswith('status+login')) else None
        login_i = None if sc['kind'] == 'status' else len(wires) - 1
        kinds = {}
        for j in range(3):
            srv = sim.Server([], end='idle')

            def first(data, srv=srv, j=j):
                try:
                    ns = proto.parse_frames(data)[0][1][-1]
                except Exception:
                    return
                kinds[again_at + j] = ns
                idx = status_i if ns == 1 else login_i
                if idx is not None:
                    w = wires[idx]
                    if ns == 2 and name.startswith('status+login'):
                        # after the documented fallback the client is pinned to its default version: the healthy server speaks
                        # the protocol named in the handshake
                        import c09
                        hp = c09.parse_conn(None, data)[0]
                        i2 = proto.Ids(hp)
                        w = proto.frame(i2.login_success, i2.b_login_success()) + proto.frame(i2.keep_alive, i2.b_keep_alive(77))
                    srv.chunks.append(w)
            srv.on_first_frame = first
            servers.append(srv)
        net = sim.Net(servers, urandom=sc.get('secret')).install()
        delivered, excs = [], []
        try:
            conn = Connection('localhost', 25565, username='user', allowed_versions=sc.get('allowed', [sc['pv']]),
                              initial_version=sc.get('initial'), handle_exception=lambda e, i: excs.append(e))
            conn.register_packet_listener(lambda p: delivered.append((net.nconn - 1, p.id)), Packet, early=True)
            if k % 4 == 1:
                # the object has been through a disconnect() before this conversation (as after any earlier session or query)
                conn.disconnect(immediate=bool(k % 8 == 1))
            import builtins
            rp = builtins.print
            builtins.print = lambda *a, **k: None
            try:
                if sc['kind'] == 'status':
                    conn.status(handle_ping=None)
                else:
                    conn.connect()
                res = list(net.run_threads(conn))
                # second conversation on the same object (after a disconnect() when the first one is still formally active)
                n_exc, again = len(excs), {'error': None}
                used = net.nconn
                try:
                    if any(r[1] == 'end-of-script' for r in res):
                        conn.disconnect(immediate=True)
                    # unused servers of the first conversation are skipped: the second conversation starts at [again_at]
                    while net.nconn < again_at:
                        net.nconn += 1
                    if sc['kind'] == 'status':
                        conn.status(handle_ping=None)
                    else:
                        conn.connect()
                    net.run_threads(conn)
                except Exception as e:
                    again['error'] = exn_name(e)
                again['new_exceptions'] = [exn_name(e) for e in excs[n_exc:]]
                again['delivered'] = {c2: [pid for c, pid in delivered if c == c2] for c2 in kinds}
            finally:
                builtins.print = rp
        finally:
            net.uninstall()
        srv = servers[ci]
        case = {'stream': name, 'connection': ci, 'prefix': k, 'of': len(wires[ci]), 'writes_fail_after': gone}
        chk.count('prefix', [name, ci, k, gone], inside)
        chk.tally('%s:%s' % (name, 'inside-frame' if inside else 'boundary'))
        outs = [r[1] for r in res]
        what = None
        if any(o in ('spin', 'would-block') for o in outs):
            what = 'the networking thread %s' % ('kept reading after end of stream (busy loop)' if 'spin' in outs else 'blocked in a read with nothing available')
        elif srv.stream is not None and srv.stream.empty_reads > 4:
            what = '%d reads after end of stream' % srv.stream.empty_reads
        else:
            got = [pid for c, pid in delivered if c == ci]
            exp_n = complete
            if name == 'play' and k == len(wires[ci]):
                pass
            if (len(got) != exp_n) if gone is None else (len(got) > exp_n):         # (a failed forced write ends the conversation early)
                what = '%d packets delivered to listeners from this connection; %d frames are wholly contained in the prefix' % (len(got), exp_n)
            else:
                ended_by_script = (name.startswith('play') and name != 'play+large-frame' and complete == len(frames)) or (name == 'status' and complete == len(frames))
                if name.startswith('status+login') and ci == 0 and complete == 0:
                    # unanswered status query: the documented fallback - a login connection with the default version
                    hs = [s for s in servers[1:] if s.sends]
                    if not hs:
                        what = 'no fallback connection after an unanswered status query'
                    else:
                        import c09
                        h = c09.parse_conn(None, b''.join(hs[0].sends))
                        dflt = sc['initial'] if sc['initial'] is not None else max(sc['allowed'])
                        if h[0] != dflt or h[3] != 2:
                            what = 'fallback connection uses protocol %s next_state %s (the default is %d)' % (h[0], h[3], dflt)
                elif name.startswith('status+login') and ci == 0:
                    pass          # the status reply was complete: negotiation proceeds (C09)
                elif ended_by_script:
                    if excs:
                        what = 'an error (%s) was reported although the conversation had ended' % exn_name(excs[0])
                elif gone is not None:
                    # end of stream and failing writes together: one of the two errors is reported, never none.  The model's turn:
                    # a held IOError (32 = EPIPE), the frames still readable, then the read that raises EOFError (-1)
                    m = run_model([('loop_turn', [[[32, True]], [[False, [], False]] * (complete % 50) + [[False, [-1], False]]])])[0]
                    if m[0] != 2:
                        chk.broken('prefix', 'the model turn with a held write error and an end-of-stream read ends with %s' % (m,))
                    if not excs or not isinstance(excs[-1], (EOFError, OSError)):
                        what = 'the peer was gone (end of stream, writes failing after %d sends) but %s was reported' % (gone, exn_name(excs[-1]) if excs else 'nothing')
                elif not excs or not isinstance(excs[-1], EOFError):
                    what = 'the stream ended %s but %s was reported' % ('inside a frame' if inside else 'between frames', exn_name(excs[-1]) if excs else 'nothing')
        if not what:
            exp_again = {c2: len(sc['conns'][status_i if ns == 1 else login_i][0]) for c2, ns in kinds.items() if (status_i if ns == 1 else login_i) is not None}
            got_again = {c2: len(again['delivered'].get(c2, [])) for c2 in exp_again}
            final = 1 if sc['kind'] == 'status' else 2
            if not any(ns == final for ns in kinds.values()):
                exp_again = 'a %s connection' % ('status' if final == 1 else 'login')
            if again['error'] or again['new_exceptions']:
                what = 'a second conversation on the same Connection object with a healthy server failed: %s %s' % (again['error'] or '', again['new_exceptions'])
            elif got_again != exp_again:
                what = 'a second conversation on the same Connection object delivered %s packets per connection; the healthy server sent %s' % (got_again, exp_again)
        if what:
            chk.violation('prefix', 'prefix:%s:%d:%d%s' % (name, ci, k, '' if gone is None else ':gone%d' % gone), {'case': case, 'observed': what, 'thread_outcomes': [str(o)[:60] for o in outs]},
                          '%s, connection %d cut after %d of %d bytes: %s' % (name, ci, k, len(wires[ci]), what))
        # cross-check the delivered packets with the model reader on constant-compression streams
        if name in ('play', 'status') and ci == 0 and gone is None:
            model_reqs.append(('read_until_error', [[], False, len(frames) + 1, [wires[ci][:k]] if k else []]))
            model_idx.append((case, [pid for c, pid in delivered if c == ci]))
    res = run_model(model_reqs)
    for (case, got), r in zip(model_idx, res):
        pk, end = r
        if [p[0] for p in pk] != got or res_decode(end) != ('err', 'EOFError'):
            chk.violation('model', 'model:%s:%d' % (case['stream'], case['prefix']), {'case': case, 'expected': [p[0] for p in pk], 'observed': got},
                          '%s cut after %d bytes: delivered ids %s, the model reader delivers %s and ends with %s' % (case['stream'], case['prefix'], got, [p[0] for p in pk], res_decode(end)))
    refused_fallback(chk)
    chk.sample('prefix', {'stream': 'play', 'bytes': len(b''.join(S['play']['conns'][0][0]))}, k=1)
    chk.assumptions += ['PARTIAL: real blocking (a select that never returns, half-open TCP) is outside the model; the simulated end of stream is what recv returning b"" looks like',
                        'spinning is detected by a budget of reads after end of stream, blocking by a read with nothing available']


def refused_fallback(chk):
    """The server ends the stream before answering the status query and then refuses the fallback login connection: the
    client does not hang, and the refusal is reported to the application (exception handler / Connection.exception) - an
    unanswered status query is non-fatal only as long as the fallback it triggers succeeds."""
    from minecraft.networking.connection import Connection
    for allowed, cut in (((47, 340), 0), ((340, 757), 0), ((47, 757), 1), ((340, 754, 757), 3)):
        reply = proto.frame(0, proto.string('{"version":{"name":"x","protocol":%d},"description":"x"}' % allowed[0]))
        net = sim.Net([sim.Server([reply[:cut]] if cut else [], end='eof'), sim.Server([], refuse=True)]).install()
        excs, exits = [], []
        try:
            conn = Connection('localhost', 25565, username='user', allowed_versions=set(allowed), handle_exception=lambda e, i: excs.append(e), handle_exit=lambda: exits.append(1))
            conn.connect()
            res = list(net.run_threads(conn))
        finally:
            net.uninstall()
        chk.count('refused-fallback', [list(allowed), cut], True)
        outs = [r[1] for r in res]
        what = None
        if any(o in ('spin', 'would-block') for o in outs):
            what = 'the networking thread did not end (%s)' % outs
        elif not excs or not isinstance(excs[-1], ConnectionRefusedError) or conn.exception is not excs[-1]:
            what = 'reported to the handler: %s; Connection.exception: %s (the refusal of the fallback connection is the error of this conversation)' % ([exn_name(e) for e in excs], exn_name(conn.exception) if conn.exception else None)
        if what:
            chk.violation('refused-fallback', 'refused-fallback:%s:%d' % ('-'.join(map(str, allowed)), cut), {'case': {'allowed': list(allowed), 'status_reply_cut_after': cut}, 'observed': what},
                          'status query unanswered (stream ends after %d bytes), fallback connection refused: %s' % (cut, what))


def whole_streams(chk, suite):
    """The reference conversations without any cut, through the real Connection and reactors under several arrivals (one chunk,
    frame by frame, random cuts): every frame is delivered once, in order, nothing is reported.  (Used by C01: the stream
    survives compression and the cipher being switched on in the middle of a read batch.)"""
    from minecraft.networking.connection import Connection
    from minecraft.networking.packets import Packet
    rng = chk.rng
    secret = bytes(range(100, 116))
    S = streams(rng, secret)
    enc = S['login+encryption']
    frames, cut = enc['conns'][0]
    plain = b''.join(frames)
    ct = bytes(run_model([('mc_encrypt', [secret, [plain[cut:]]])])[0][0])
    enc['wire'] = [plain[:cut] + ct]
    for name in ('login+compression', 'login+encryption', 'play', 'play+set-compression-0', 'play+set-compression-64'):
        sc = S[name]
        wire = (sc.get('wire') or [b''.join(fr) for fr, _c in sc['conns']])[0]
        frames = sc['conns'][0][0]
        for arrival in ('whole', 'frame', 'random', 'random', 'bytewise'):
            if arrival == 'whole':
                chunks = [wire]
            elif arrival == 'frame':
                chunks, o = [], 0
                for f in frames:
                    chunks.append(wire[o:o + len(f)])
                    o += len(f)
            elif arrival == 'bytewise':
                chunks = [wire[i:i + 1] for i in range(len(wire))]
            else:
                cuts = sorted(set(rng.randrange(1, len(wire)) for _ in range(rng.randrange(1, 9))))
                chunks = [wire[a:b] for a, b in zip([0] + cuts, cuts + [len(wire)])]
            net = sim.Net([sim.Server(chunks, end='idle'), sim.Server([], end='idle')], urandom=sc.get('secret')).install()
            delivered, excs = [], []
            try:
                conn = Connection('localhost', 25565, username='user', allowed_versions=sc.get('allowed', [sc['pv']]), handle_exception=lambda e, i: excs.append(e))
                conn.register_packet_listener(lambda p: delivered.append(p.id), Packet, early=True)
                conn.connect()
                net.run_threads(conn)
            finally:
                net.uninstall()
            chk.count(suite, [name, arrival, len(chunks)], True)
            if len(delivered) != len(frames) or excs:
                chk.violation(suite, '%s:%s:%s' % (suite, name, arrival), {'case': {'stream': name, 'arrival': arrival, 'chunks': len(chunks)}, 'observed': {'delivered': len(delivered), 'errors': [exn_name(e) for e in excs]}},
                              '%s arriving %s (%d chunks): %d of %d frames delivered, errors %s' % (name, arrival, len(chunks), len(delivered), len(frames), [exn_name(e) for e in excs]))


def replay(chk, rp):
    run(chk)
