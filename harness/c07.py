"""C07 - core packets match the published protocol for every supported release."""
import common, codec, gen, gen_tables, c05, reent
from codec import Buf
from common import run_model, res_decode, exn_name

RULE = ('all 30 README release protocols x the 20 core packets: reified id and definition against the independent table '
        '(Spec/ProtocolTable.v, evaluated by the Coq kernel), and on the real code: Packet.write frames with boundary / zero / random '
        'field values against length + published id + the model encoding of the published layout, and reference bytes decoded by '
        'the real read; every frame again through one context whose protocol_version hops between releases. Non-trivial = packet with at least one field; distinct by (release, packet, values).')

NAMES = ['handshake', 'status request', 'status response', 'ping', 'pong', 'login start', 'login success', 'login disconnect',
         'set compression', 'encryption request', 'encryption response', 'keep alive (clientbound)', 'keep alive (serverbound)',
         'join game', 'chat (clientbound)', 'chat (serverbound)', 'player position and look (clientbound)',
         'player position and look (serverbound)', 'teleport confirm', 'disconnect (play)']


def sx_ty(s):
    """sx of an ftype (as printed by the runner) -> the reifier's type JSON"""
    if isinstance(s, list):
        if s[0] == 15:
            return ['Fixed', sx_ty(s[1]), s[2]]
        if s[0] == 21:
            return ['Array', sx_ty(s[1]), sx_ty(s[2])]
        return ['Custom', codec.CUSTOM[s[1]]]
    return [codec.SIMPLE[s]]


def compat(a, b):
    if a == b:
        return True
    if a[0] == 'Array' and b[0] == 'Array':
        return compat(a[1], b[1]) and compat(a[2], b[2])
    return {a[0], b[0]} == {'Byte', 'UnsignedByte'}


def run(chk):
    bad = common.lint()
    if bad:
        chk.broken('lint', '; '.join(bad[:10]))
    t = gen.prepare(chk, ('Versions', 'Tables'))
    ok, out = chk.prove('Properties/C07.v', extra_q=[(chk.gen_dir, 'Gen')])
    from minecraft.networking.connection import ConnectionContext
    rng, th = chk.rng, chk.tier == 'thorough'
    rel, core = run_model([('spec_releases', [])])[0]
    kv = dict(t['known_versions'])
    readme = sorted(set(kv.get(r, -1) for r in t['readme_releases']))
    before = len(chk.violations)
    if readme != sorted(rel):
        chk.violation('releases', 'releases', {'case': {'readme': readme, 'table': sorted(rel)}},
                      'the README lists release protocols %s; the reference table covers %s' % (sorted(set(readme) - set(rel)), sorted(set(rel) - set(readme))))
    pos = {p: i for i, p in enumerate(t['known_protocols'])}
    spec = run_model([('spec_packet', [p, v]) for v in rel for p in core])
    it = iter(spec)
    jobs = []
    for v in rel:
        if v not in pos:
            for p in core:
                next(it)
            chk.violation('table', 'norelease:%d' % v, {'case': {'release': v}}, 'release protocol %d is not a known version' % v)
            continue
        per = t['per_version'][pos[v]]
        long_at = set(sorted(rel)[::6] + sorted(rel)[-1:])
        ctx = ConnectionContext(protocol_version=v)
        cc = c05.cctx_of(ctx)
        for p in core:
            ex, tbl, sid, lay = next(it)
            q = gen_tables.CORE_PACKETS[p]
            tn = gen_tables.TABLE_NAMES[tbl]
            lay = [sx_ty(x) for x in lay]
            chk.count('table', [v, p], len(lay) > 0)
            member = q in per['tables'][tn]
            key = 'core:%s:%d' % (NAMES[p], v)
            case = {'release': v, 'packet': NAMES[p], 'class': q, 'table': tn}
            if not ex:
                if member:
                    chk.violation('table', key + ':exists', dict(case=case), '%s is registered at release %d, where the protocol has no such packet' % (NAMES[p], v))
                continue
            if not member:
                chk.violation('table', key + ':member', dict(case=case), '%s is not registered in %s at release %d' % (NAMES[p], tn, v))
                continue
            e = per['classes'][q]
            if e['id'] != sid:
                chk.violation('table', key + ':id', dict(case=case, expected=sid, observed=e['id']),
                              '%s at release %d has id 0x%02X; the published id is 0x%02X' % (NAMES[p], v, e['id'] if isinstance(e['id'], int) else -1, sid))
                continue
            d = e['def']
            if not isinstance(d, list) or len(d) != len(lay) or not all(compat(ty, s) for (_n, ty), s in zip(d, lay)):
                chk.violation('table', key + ':layout', dict(case=case, expected=[s for s in lay], observed=d),
                              '%s at release %d is laid out as %s; the published layout is %s' % (NAMES[p], v, [x[1] for x in d] if isinstance(d, list) else d, lay))
                continue
            cls = c05.cls_of(q)
            for i in range(6 if th else 4):
                vals = []
                for (nm, ty), s in zip(d, lay):
                    # one-byte fields: values on which the signed and unsigned readings coincide
                    gty = ['UnsignedByte'] if (ty != s) else s
                    py, m = c05.gen_value(gty, rng, i if i < 3 else 3, v, ctx)
                    if ty != s and isinstance(py, int):
                        py = m[1] = py % 128
                    if i == 2 and gty == ['String'] and v in long_at and not any(len(x[1]) > 9000 for x in vals if isinstance(x[1], str)):
                        # a string within the published limit of 32767 characters whose UTF-8 form is longer than 32767 bytes
                        py = '\u4e16\u754c' * 5500
                        m = [2, [ord(c) for c in py]]
                    vals.append((nm, py, m))
                jobs.append((v, p, q, ctx, cls, sid, lay, vals, cc, key, case))
    # ---- evaluations that came out differently in another evaluation order / on a reused context (reifier second sweeps)
    for a in t.get('per_version_alt', []):
        v = a['proto']
        if v not in rel:
            continue
        sp = run_model([('spec_packet', [p, v]) for p in core])
        for p, (ex, tbl, sid, lay) in zip(core, sp):
            q = gen_tables.CORE_PACKETS[p]
            tn = gen_tables.TABLE_NAMES[tbl]
            lay = [sx_ty(x) for x in lay]
            chk.count('history', [v, p, a['order']], True)
            e = a['evaluation']['classes'].get(q)
            member = q in a['evaluation']['tables'][tn]
            case = {'release': v, 'packet': NAMES[p], 'class': q, 'order': a['order'], 'previous': a['previous']}
            how = 'evaluated %s after protocol %s on a reused context' % (a['order'], a['previous'])
            if bool(ex) != member:
                chk.violation('history', 'history:%s:%d:member' % (NAMES[p], v), dict(case=case), '%s at release %d, %s: registered=%s, published=%s' % (NAMES[p], v, how, member, bool(ex)))
            elif ex and e['id'] != sid:
                chk.violation('history', 'history:%s:%d:id' % (NAMES[p], v), dict(case=case, expected=sid, observed=e['id']),
                              '%s at release %d, %s, has id %r; the published id is 0x%02X' % (NAMES[p], v, how, e['id'], sid))
            elif ex and (not isinstance(e['def'], list) or len(e['def']) != len(lay) or not all(compat(ty, s2) for (_n, ty), s2 in zip(e['def'], lay))):
                chk.violation('history', 'history:%s:%d:layout' % (NAMES[p], v), dict(case=case, expected=lay, observed=e['def']),
                              '%s at release %d, %s, is laid out differently from the published layout' % (NAMES[p], v, how))
    # ---- concrete bytes on the real code against the published layout
    reqs, live = [], []
    for job in jobs:
        v, p, q, ctx, cls, sid, lay, vals, cc, key, case = job
        pk = cls(context=ctx)
        for nm, py, _m in vals:
            setattr(pk, nm, py)
        try:
            fr = c05.frame_of(pk)
        except Exception as ex:
            chk.violation('bytes', key + ':write', dict(case=case, observed=repr(ex)[:200]), '%s at release %d: Packet.write raised %s' % (NAMES[p], v, exn_name(ex)))
            continue
        reqs.append(('encode_fields', [cc, [codec.ft_sx(s) for s in lay], [m for _n, _py, m in vals]]))
        live.append((job, fr))
    res = run_model(reqs)
    kept_objs = {}
    for (job, fr), r in zip(live, res):
        v, p, q, ctx, cls, sid, lay, vals, cc, key, case = job
        chk.count('bytes', [v, p, fr.hex()[:300]], len(lay) > 0)
        r = res_decode(r, lambda x: bytes(x))
        if r[0] != 'ok':
            chk.broken('spec-encoder', 'the reference encoder rejected generated values for %s at %d: %r' % (NAMES[p], v, r))
            continue
        body = c05.varint(sid) + r[1]
        exp = c05.varint(len(body)) + body
        if fr != exp:
            chk.violation('bytes', key + ':bytes', dict(case=dict(case, values=repr([(n, py) for n, py, _m in vals])[:600]), expected=exp.hex()[:600], observed=fr.hex()[:600]),
                          '%s at release %d is written as %s; the published protocol prescribes %s' % (NAMES[p], v, fr.hex()[:50], exp.hex()[:50]))
            continue
        # reference bytes decoded by the real read - into a fresh packet object, and into one kept per class and release that has
        # decoded other packets before (a decoder may reuse its packet objects)
        if (q, v) not in kept_objs:
            kept_objs[(q, v)] = cls(context=ctx)
        for pk, how in ((cls(context=ctx), ''), (kept_objs[(q, v)], ' into a packet object that decoded another packet before')):
            rb = Buf(r[1])
            try:
                pk.read(rb)
                def field_ok(nm, m, s):
                    got = getattr(pk, nm)
                    if s[0] in ('Byte', 'UnsignedByte'):
                        return isinstance(got, int) and got % 256 == m[1] % 256
                    return c05.same(s, m, got)
                bad = next((nm for (nm, py, m), s in zip(vals, lay) if not field_ok(nm, m, s)), None)
                what = None if bad is None and rb.pos == len(r[1]) else ('field %s decoded wrongly' % bad if bad else 'read consumed %d of %d bytes' % (rb.pos, len(r[1])))
            except Exception as ex:
                what = 'read raised %s' % exn_name(ex)
            if what:
                chk.violation('bytes', key + ':read', dict(case=dict(case, bytes=r[1].hex()[:600]), observed=what + how), '%s at release %d: decoding the published byte layout%s: %s' % (NAMES[p], v, how, what))
                break
    # ---- the same frames through ONE context object whose protocol_version is reassigned between packets (what Connection
    #      does during version negotiation, and what multi-version tools do), in an order that hops between releases
    shared = ConnectionContext(protocol_version=rel[0])
    order = [(job, fr, r) for (job, fr), r in zip(live, res) if res_decode(r, lambda x: bytes(x))[0] == 'ok']
    rng.shuffle(order)
    prev = None
    for job, fr, r in order:
        v, p, q, ctx, cls, sid, lay, vals, cc, key, case = job
        shared.protocol_version = v
        chk.count('reused-context', [v, p, fr.hex()[:300]], len(lay) > 0)
        pk = cls(context=shared)
        for nm, py, _m in vals:
            setattr(pk, nm, py)
        r = res_decode(r, lambda x: bytes(x))
        body = c05.varint(sid) + r[1]
        exp = c05.varint(len(body)) + body
        what = None
        # ... and after writes that failed (the socket broke; a field could not be encoded): the error is the caller's to handle,
        # the next packet must still be the published bytes
        try:
            pk.write(reent.FailingSink(rng.choice([0, 0, 1])))
        except Exception:
            pass
        if vals and rng.random() < 0.3:
            bad_pk = cls(context=shared)
            for nm, py, _m in vals:
                setattr(bad_pk, nm, py)
            setattr(bad_pk, vals[-1][0], object())
            try:
                bad_pk.write(Buf())
            except Exception:
                pass
        try:
            got = c05.frame_of(pk)
            if got != exp:
                what = 'is written as %s; the published protocol prescribes %s' % (got.hex()[:50], exp.hex()[:50])
        except Exception as ex:
            got = None
            what = 'Packet.write raised %s' % exn_name(ex)
        if what is None:
            pk2 = cls(context=shared)
            rb = Buf(r[1])
            try:
                pk2.read(rb)
                if rb.pos != len(r[1]):
                    what = 'read consumed %d of the %d published bytes' % (rb.pos, len(r[1]))
                elif pk2.id != sid:
                    what = 'a packet read under this release reports id %r; published 0x%02X' % (pk2.id, sid)
            except Exception as ex:
                what = 'read of the published bytes raised %s' % exn_name(ex)
        if what:
            chk.violation('reused-context', 'reused:' + key, dict(case=dict(case, previous_release_on_this_context=prev, values=repr([(n, py) for n, py, _m in vals])[:600]),
                                                                   expected=exp.hex()[:600], observed=got.hex()[:600] if got else None),
                          '%s at release %d on a context previously used at release %s, after a write that failed: %s' % (NAMES[p], v, prev, what))
        prev = v
    # a VarInt field cannot carry a negative number (pyCraft's VarInt refuses them): writing such a packet must fail, not put
    # some other number on the wire
    seen = set()
    for job in jobs:
        v, p, q, ctx, cls, sid, lay, vals, cc, key, case = job
        vi = next((k for k, sl in enumerate(lay) if sl == ['VarInt']), None)
        if vi is None or (v, p) in seen:
            continue
        seen.add((v, p))
        for neg in (-1, -128, -129, -2 ** 31):
            pk = cls(context=ctx)
            for nm, py, _m in vals:
                setattr(pk, nm, py)
            setattr(pk, vals[vi][0], neg)
            chk.count('negative-varint', [v, p, neg], True)
            try:
                got = c05.frame_of(pk)
            except Exception:
                continue
            chk.violation('negative-varint', key + ':negative:%d' % neg, dict(case=dict(case, field=vals[vi][0], value=neg), observed=got.hex()[:200]),
                          '%s at release %d with %s = %d was written as %s instead of being refused' % (NAMES[p], v, vals[vi][0], neg, got.hex()[:40]))
            break
    if live:
        (v, p, *_), fr = live[len(live) // 2]
        chk.sample('bytes', {'release': v, 'packet': NAMES[p], 'frame': fr.hex()[:80]}, k=3)
    if not ok and len(chk.violations) == before:
        chk.broken('Properties/C07.v', out)
    chk.assumptions += ['the reference table (Spec/ProtocolTable.v) is trusted text typed in from the published protocol documentation',
                        'primitive encoders are those of C02 (proved against arithmetic specs); framing is C01']


def replay(chk, rp):
    run(chk)
