"""Reifier: imports the repo under test fresh (PYTHONPATH is set by the caller), evaluates the
version-indexed table functions on their complete finite domain (every known protocol version)
and prints them as JSON.  Fails closed (non-zero exit, message on stderr) on anything it cannot
represent.  See DESIGN.md section 2.2 and appendix B."""
import sys, json, os, re, struct, importlib


def fail(msg):
    sys.stderr.write('REIFY-FAIL: ' + msg + '\n')
    sys.exit(3)


def main():
    repo = os.environ.get('VERIF_REPO', '/repo')
    import minecraft
    if not os.path.abspath(minecraft.__file__).startswith(os.path.abspath(repo)):
        fail('minecraft imported from %s, not from %s' % (minecraft.__file__, repo))
    from minecraft.networking.connection import ConnectionContext
    from minecraft.networking.packets import Packet, PacketBuffer
    from minecraft.networking import packets as P
    from minecraft.networking.types import basic as B
    from minecraft.networking import types as T

    out = {}
    recs = minecraft.KNOWN_MINECRAFT_VERSION_RECORDS
    out['records'] = []
    for r in recs:
        if not (isinstance(r.id, str) and isinstance(r.protocol, int) and not isinstance(r.protocol, bool)
                and isinstance(r.supported, bool)):
            fail('version record not (str, int, bool): %r' % (r,))
        out['records'].append([r.id, r.protocol, r.supported])
    out['PRE'] = minecraft.PRE
    out['known_versions'] = [[k, v] for k, v in minecraft.KNOWN_MINECRAFT_VERSIONS.items()]
    out['supported_versions'] = [[k, v] for k, v in minecraft.SUPPORTED_MINECRAFT_VERSIONS.items()]
    out['release_versions'] = [[k, v] for k, v in minecraft.RELEASE_MINECRAFT_VERSIONS.items()]
    out['known_protocols'] = list(minecraft.KNOWN_PROTOCOL_VERSIONS)
    out['supported_protocols'] = list(minecraft.SUPPORTED_PROTOCOL_VERSIONS)
    out['release_protocols'] = list(minecraft.RELEASE_PROTOCOL_VERSIONS)
    out['indices'] = [[k, v] for k, v in minecraft.PROTOCOL_VERSION_INDICES.items()]

    # README "Supported Minecraft versions" list
    readme = os.path.join(repo, 'README.rst')
    rel = []
    if os.path.exists(readme):
        txt = open(readme).read()
        m = re.search(r'Supported Minecraft versions\n[-=~]+\n(.*?)\n[^\n]+\n[-=~]+\n', txt, flags=re.S)
        if m:
            for line in m.group(1).split('\n'):
                if line.startswith('* '):
                    for tok in line[2:].split(','):
                        tok = tok.strip()
                        if re.match(r'^\d+(\.\d+)+$', tok):
                            rel.append(tok)
    out['readme_releases'] = rel

    known = out['known_protocols']
    if sorted(set(known)) != sorted(known):
        fail('KNOWN_PROTOCOL_VERSIONS has duplicates')

    # ---- type reification
    simple = {}
    for name in ('Boolean', 'UnsignedByte', 'Byte', 'Short', 'UnsignedShort', 'Integer', 'VarInt', 'VarLong',
                 'Long', 'UnsignedLong', 'Float', 'Double', 'ShortPrefixedByteArray', 'VarIntPrefixedByteArray',
                 'TrailingByteArray', 'String', 'UUID', 'Angle', 'Position', 'NBT'):
        simple[getattr(B, name)] = name

    def qual(c):
        return c.__module__.replace('minecraft.networking.packets.', '') + ':' + c.__qualname__

    def rtype(t):
        if isinstance(t, type):
            if t in simple:
                return [simple[t]]
            if issubclass(t, B.Type):
                return ['Custom', qual(t)]
            fail('field type %r is not a Type' % (t,))
        if isinstance(t, B.FixedPoint):
            d = t.denominator
            if not (isinstance(d, int) and d > 0 and d & (d - 1) == 0):
                fail('FixedPoint denominator %r' % (d,))
            return ['Fixed', rtype(t.integer_type), d.bit_length() - 1]
        if isinstance(t, B.PrefixedArray):
            return ['Array', rtype(t.length_type), rtype(t.element_type)]
        fail('unrepresentable field type %r' % (t,))

    def rdef(d):
        if d is None:
            return None
        res = []
        for fld in d:
            if not isinstance(fld, dict):
                fail('definition entry %r' % (fld,))
            for k, v in fld.items():
                res.append([k, rtype(v)])
        return res

    tables = {}
    classes = {}
    mods = {}
    for direction in ('clientbound', 'serverbound'):
        for state in ('handshake', 'status', 'login', 'play'):
            mods[direction + '.' + state] = importlib.import_module(
                'minecraft.networking.packets.%s.%s' % (direction, state))

    def evaluate(pv, ctx=None):
        if ctx is None:
            ctx = ConnectionContext(protocol_version=pv)
        else:
            ctx.protocol_version = pv
        res = {'tables': {}, 'classes': {}}
        for tname, mod in mods.items():
            try:
                pk = mod.get_packets(ctx)
            except Exception as e:
                res['tables'][tname] = ['!' + type(e).__name__]
                continue
            names = sorted(qual(c) for c in pk)
            res['tables'][tname] = names
            for c in pk:
                q = qual(c)
                if q in res['classes']:
                    continue
                try:
                    i = c.get_id(ctx)
                    if i is not None and (isinstance(i, bool) or not isinstance(i, int)):
                        fail('%s.get_id(%d) = %r is not an int' % (q, pv, i))
                except Exception as e:
                    i = '!' + type(e).__name__
                custom_r = c.read is not Packet.read
                custom_w = c.write_fields is not Packet.write_fields
                d = None
                try:
                    if not (custom_r and custom_w):
                        d = rdef(c.get_definition(ctx))
                    else:
                        try:
                            d = rdef(c.get_definition(ctx))
                        except Exception:
                            d = None
                except SystemExit:
                    raise
                except Exception as e:
                    d = '!' + type(e).__name__
                res['classes'][q] = {'id': i, 'def': d, 'custom_read': custom_r, 'custom_write': custom_w,
                                     'name': getattr(c, 'packet_name', None)}
        return res

    per = []
    for pv in known:
        a = evaluate(pv)
        b = evaluate(pv)          # determinism / purity in the version: fresh context, second evaluation
        if a != b:
            fail('table functions are not deterministic at protocol %d' % pv)
        per.append(a)
    out['per_version'] = per
    # the tables are functions of the version alone: a second sweep newest-first, and a third one alternating between both
    # ends of the list, both on ONE context object whose protocol_version is reassigned; evaluations that differ from the
    # first sweep are passed on (the checks look for the property failing in them)
    alt = []
    shared = ConnectionContext(protocol_version=known[0])
    n = len(known)
    zig = [j for i in range((n + 1) // 2) for j in ([i, n - 1 - i] if i != n - 1 - i else [i])]
    for order_name, order in (('newest-first', list(range(n - 1, -1, -1))), ('alternating-ends', zig)):
        prev = None
        for i in order:
            a = evaluate(known[i], shared)
            if a != per[i]:
                alt.append({'index': i, 'proto': known[i], 'order': order_name, 'previous': prev, 'evaluation': a})
            prev = known[i]
    out['per_version_alt'] = alt[:40]

    # ---- Position layout per version, by probing the encoder with triples that distinguish the layouts
    def enc_pos(pv, xyz):
        ctx = ConnectionContext(protocol_version=pv)
        buf = PacketBuffer()
        B.Position.send_with_context(xyz, buf, ctx)
        return buf.get_writable()

    def word(x, y, z, zy):
        if zy:
            return ((x & 0x3FFFFFF) << 38) | ((z & 0x3FFFFFF) << 12) | (y & 0xFFF)
        return ((x & 0x3FFFFFF) << 38) | ((y & 0xFFF) << 26) | (z & 0x3FFFFFF)
    probes = [(1, 2, 3), (-5, 100, -7), (33554431, -2048, -33554432)]
    layout = []
    for pv in known:
        got = []
        for pr in probes:
            try:
                got.append(enc_pos(pv, pr))
            except Exception as e:
                got.append('!' + type(e).__name__)
        if all(g == struct.pack('>Q', word(*pr, zy=True)) for g, pr in zip(got, probes)):
            layout.append('zy')
        elif all(g == struct.pack('>Q', word(*pr, zy=False)) for g, pr in zip(got, probes)):
            layout.append('yz')
        else:
            layout.append('other')
        # the decoder must use the same layout as the encoder
        ctx = ConnectionContext(protocol_version=pv)
        for pr, g in zip(probes, got):
            if isinstance(g, bytes):
                buf = PacketBuffer()
                buf.send(g)
                buf.reset_cursor()
                try:
                    back = tuple(B.Position.read_with_context(buf, ctx))
                except Exception as e:
                    back = '!' + type(e).__name__
                if back != pr and layout[-1] != 'other':
                    layout[-1] = 'mismatch'
    out['layout'] = layout
    json.dump(out, sys.stdout)


main()
