"""C13 - listeners fire in documented order, once each; ignore stops later stages."""
import common, sim, proto
from common import run_model, exn_name

RULE = ('random listener configurations (0..5 listeners in each of the four classes registered in random interleaved order, type '
        'filters drawn from a harness-made Packet class hierarchy plus the real classes, behaviour per (listener, packet) in '
        '{return, raise IgnorePacket, raise another exception}) x packet histories: (a) the real Connection._react / '
        '_write_packet with a stub reactor and a recording socket against the extracted model, call log and outcome compared; '
        '(b) the same through the simulated transport in login and play states with the real reactors (call logs and the frames '
        'the server sees). Non-trivial = at least two listeners match and at least one signals ignore; distinct by configuration.')


def hierarchy():
    from minecraft.networking.packets import Packet
    from minecraft.networking.types import VarInt
    A = type('PktA', (Packet,), {'id': 0x61, 'packet_name': 'a', 'definition': [{'v': VarInt}]})
    B = type('PktB', (A,), {'id': 0x62, 'packet_name': 'b'})
    C = type('PktC', (B,), {'id': 0x63, 'packet_name': 'c'})
    D = type('PktD', (Packet,), {'id': 0x64, 'packet_name': 'd', 'definition': []})
    E = type('PktE', (D, ), {'id': 0x65, 'packet_name': 'e'})
    F = type('PktF', (A, ), {'id': 0x66, 'packet_name': 'f'})
    classes = [Packet, A, B, C, D, E, F]
    anc = [[j for j, k in enumerate(classes) if issubclass(c, k)] for c in classes]
    return classes, anc


class Boom(KeyError):
    """what a failing listener raises (a KeyError subclass: the kind of error a callback's own dict lookup produces)"""


def beh_sx(b):
    return 0 if b == 'ret' else 1 if b == 'ign' else [2, b[1]]


def run_direct(chk, n_cfg):
    from minecraft.networking.connection import Connection
    from minecraft.exceptions import IgnorePacket
    from minecraft.networking.connection import ConnectionContext
    rng = chk.rng
    classes, anc = hierarchy()
    rel = [[i, a] for i, a in enumerate(anc)]
    reqs, metas = [], []
    for cfg in range(n_cfg):
        conn = Connection('localhost', 25565, username='u')
        conn.socket = sim.RecSocket()
        log = []
        nl = rng.randrange(0, 12)
        packets = [(k, rng.randrange(1, len(classes))) for k in range(rng.randrange(1, 6))]
        outgoing = [(100 + k, rng.randrange(1, len(classes))) for k in range(rng.randrange(1, 4))]
        keys = [k for k, _c in packets + outgoing]
        ls = []
        # registration goes through register_packet_listener or through the decorator form conn.listener(...); one decorator
        # object may be applied to several handlers (the first configurations are scripted that way: three handlers under one
        # decorator for each of the four listener classes)
        scripted = cfg < 16
        if scripted:
            nl = max(nl, 3)
        shared = None
        for i in range(nl):
            early, out = rng.random() < 0.5, rng.random() < 0.4
            flt = sorted(set(rng.randrange(len(classes)) for _ in range(rng.choice([0, 1, 1, 2, 3]))))
            if scripted and i < 3:
                early, out, flt = bool(cfg & 1), bool(cfg & 2), ([] if cfg & 4 else [0])
            reuse = shared is not None and (scripted and i < 3 or rng.random() < 0.3)
            if reuse:
                early, out, flt = shared[0]
            beh = {k: rng.choice(['ret'] * 8 + ['ign', 'ign', ('raise', 500 + i)]) for k in keys}

            def cb(packet, i=i, beh=beh):
                log.append(('L', i, packet.key))
                b = beh[packet.key]
                if b == 'ign':
                    raise IgnorePacket()
                if b != 'ret':
                    e = Boom(b[1])
                    e.code = b[1]
                    raise e
            if (scripted and i == 1) or rng.random() < 0.15:
                # the application replaces the public listener lists by new list objects (how a listener is unregistered in this
                # version: conn.packet_listeners = [l for l in conn.packet_listeners if ...]); later registrations go to the new lists
                for attr in ('packet_listeners', 'early_packet_listeners', 'outgoing_packet_listeners', 'early_outgoing_packet_listeners'):
                    if hasattr(conn, attr):
                        setattr(conn, attr, list(getattr(conn, attr)))
            if reuse:
                shared[1](cb)
            elif (scripted and i < 3) or rng.random() < 0.3:
                kw = {}
                if early or rng.random() < 0.5:
                    kw['early'] = early
                if out or rng.random() < 0.5:
                    kw['outgoing'] = out
                shared = ((early, out, flt), conn.listener(*[classes[j] for j in flt], **kw))
                if shared[1](cb) is not cb:
                    chk.violation('direct', 'decorator-return', {'case': {'listener': i}}, 'the listener decorator does not return the function it registered')
            else:
                # the flags as an application may pass them: the bool itself, the equal integer, or None for "not set"
                # (a wrapper that forwards its own optional arguments); all have the truth value of the flag
                as_given = lambda b: rng.choice([b, b, int(b)] if b else [b, b, 0, None])
                conn.register_packet_listener(cb, *[classes[j] for j in flt], early=as_given(early), outgoing=as_given(out))
            ls.append((i, early, out, flt, beh))
        rbeh = {k: rng.choice(['ret'] * 8 + ['ign', 'ign', ('raise', 900)]) for k in keys}

        class Stub(object):
            def react(self, packet):
                log.append(('R', packet.key))
                b = rbeh[packet.key]
                if b == 'ign':
                    raise IgnorePacket()
                if b != 'ret':
                    e = Boom(b[1])
                    e.code = b[1]
                    raise e
        conn.reactor = Stub()
        # incoming history (the dispatch routine is private: it is looked up by its present name; if a rewrite renames it, this
        # direct suite is skipped and the same order is still checked through the simulated transport below)
        react = getattr(conn, '_react', None)
        if react is None:
            if 'direct incoming suite skipped: Connection has no _react' not in chk.assumptions:
                chk.assumptions.append('direct incoming suite skipped: Connection has no _react')
            continue
        outcome = [0]
        for k, ci in packets:
            p = classes[ci](context=ConnectionContext(protocol_version=757))
            p.key, p.v = k, 1
            try:
                react(p)
            except Boom as e:
                outcome = [2, e.code]
                break
            except Exception as e:
                outcome = ['unexpected', exn_name(e)]
                break
        got_in = ([list(x) for x in log], outcome)
        # whatever that history ended with (an ignore, a listener's exception), a listener registered afterwards is a listener:
        # it is called for the next packet at its place in the documented order
        late_added = []
        if rng.random() < 0.6:
            del log[:]
            nk = 9000 + cfg
            conn.register_packet_listener(lambda packet: log.append(('L', 777, packet.key)), classes[0], early=rng.random() < 0.5 and not late_added.append('early'))
            p2 = classes[rng.randrange(1, len(classes))](context=ConnectionContext(protocol_version=757))
            p2.key, p2.v = nk, 1
            for _i, _e, _o, _flt, beh in ls:
                beh[nk] = 'ret'
            rbeh[nk] = 'ret'
            try:
                react(p2)
                oc2 = [0]
            except Exception as e:
                oc2 = ['unexpected', exn_name(e)]
            calls = [x for x in log if x[0] == 'L' and x[1] == 777]
            chk.count('in-after', [cfg, bool(late_added)], True)
            if oc2 != [0] or len(calls) != 1 or not any(x[0] == 'R' for x in log):
                chk.violation('in-after', 'in-after:%d' % cfg, {'case': {'earlier_history_outcome': outcome, 'registered_early': bool(late_added)}, 'observed': {'log': [list(x) for x in log], 'outcome': oc2}},
                              'a listener registered after a history that ended with outcome %s was called %d times for the next packet (log %s)' % (outcome, len(calls), [list(x) for x in log][:8]))
        mk = lambda early, out: [[i, flt, [[k, beh_sx(b)] for k, b in beh.items()]] for i, e, o, flt, beh in ls if e == early and o == out]
        reqs.append(('react_all', [rel, mk(True, False), mk(False, False), [[k, beh_sx(b)] for k, b in rbeh.items()], [[k, ci] for k, ci in packets]]))
        metas.append(('in', cfg, got_in, {'listeners': [[i, e, o, flt, {str(k): str(v) for k, v in beh.items()}] for i, e, o, flt, beh in ls], 'packets': packets, 'reaction': {str(k): str(v) for k, v in rbeh.items()}}))
        # outgoing packets, one by one
        for k, ci in outgoing:
            del log[:]
            p = classes[ci](context=ConnectionContext(protocol_version=757))
            p.key, p.v = k, 1
            before = len(conn.socket.sends)
            outcome = [0]
            wrote = [False]
            orig_send = conn.socket.send

            # sometimes the socket fails (peer gone), on a live connection or while disconnect() is flushing (connected False):
            # the packet was not written, so the ordinary outgoing listeners must not hear of it and the error reaches the caller
            fault = rng.random() < 0.3
            conn.connected = rng.random() < 0.5

            def send(data, orig=orig_send, fault=fault, k=k):
                if fault:
                    raise BrokenPipeError(32, 'Broken pipe')
                if not wrote[0]:
                    log.append(('W', k))
                    wrote[0] = True
                return orig(data)
            conn.socket.send = send
            try:
                conn.write_packet(p, force=True)          # the public entry point: a forced write goes straight to the socket
            except Boom as e:
                outcome = [2, e.code]
            except OSError:
                outcome = ['io']
            except Exception as e:
                outcome = ['unexpected', exn_name(e)]
            conn.socket.send = orig_send
            got = ([list(x) for x in log], outcome)
            reqs.append(('write_out', [rel, mk(True, True), mk(False, True), [[k, [2, 777]]] if fault else [], [k, ci]]))      # 777: the socket's error
            metas.append(('out', cfg, got, {'listeners': [[i, e, o, flt, {str(kk): str(v) for kk, v in beh.items()}] for i, e, o, flt, beh in ls], 'packet': [k, ci],
                                            'socket_fails': fault, 'connected': conn.connected}))
        # the same outgoing packets once more through the queue and the flush of disconnect() ("while self._pop_packet(): pass"):
        # a vetoed packet (IgnorePacket from an outgoing listener) is skipped, the ones behind it are written; another
        # exception ends the flush there with the rest still queued (model: flush_all, theorems C13_flush_*)
        pop = getattr(conn, '_pop_packet', None)
        if pop is not None and outgoing:
            import collections
            conn._outgoing_packet_queue = collections.deque()        # (what connect() creates for a new session)
            del log[:]
            conn.connected = True
            faulty = set(k for k, _ci in outgoing if rng.random() < 0.15)
            for k, ci in outgoing:
                p = classes[ci](context=ConnectionContext(protocol_version=757))
                p.key, p.v = k, 1

                def write(sock, thr=None, p=p, w=p.write):
                    if p.key in faulty:
                        raise BrokenPipeError(32, 'Broken pipe')
                    r = w(sock, thr)
                    log.append(('W', p.key))
                    return r
                p.write = write
                conn.write_packet(p)
            outcome = [0]
            try:
                while pop():
                    pass
            except Boom as e:
                outcome = [2, e.code]
            except OSError:
                outcome = ['io']
            except Exception as e:
                outcome = ['unexpected', exn_name(e)]
            rest = [q.key for q in conn._outgoing_packet_queue]
            conn._outgoing_packet_queue.clear()
            reqs.append(('flush_all', [rel, mk(True, True), mk(False, True), [[k, [2, 777]] for k in sorted(faulty)], [[k, ci] for k, ci in outgoing]]))
            metas.append(('flush', cfg, ([list(x) for x in log], outcome, rest),
                          {'listeners': [[i, e, o, flt, {str(kk): str(v) for kk, v in beh.items()}] for i, e, o, flt, beh in ls], 'queued': [list(x) for x in outgoing], 'write_fails_for': sorted(faulty)}))
    res = run_model(reqs)
    for (kind, cfg, got, case), r in zip(metas, res):
        ev, oc = r[0], r[1]
        exp_log = [['L', e[1], e[2]] if e[0] == 0 else ['R', e[1]] if e[0] == 1 else ['W', e[1]] for e in ev]
        exp_out = [0] if oc[0] in (0, 1) else [2, oc[1]]      # IgnorePacket is swallowed: the caller sees a normal return
        if oc[0] == 2 and oc[1] == 777:
            exp_out = ['io']                       # the model's write raised: the socket's error reaches the caller
            chk.tally('out:socket-failed')
        nmatch = sum(1 for e in exp_log if e[0] == 'L')
        chk.count(kind, case, nmatch >= 2)
        chk.tally('%s:%s' % (kind, ['done', 'ignored', 'raised'][oc[0]]))
        if kind == 'flush' and (got[0] != exp_log or got[1] != exp_out or got[2] != r[2]):
            chk.violation(kind, 'flush:%s' % (hash(str(case)) % 10 ** 8), {'case': case, 'expected': [exp_log, exp_out, r[2]], 'observed': list(got)},
                          'flush of %d queued packets: calls and writes %s (outcome %s, still queued %s); the model gives %s (outcome %s, still queued %s)' % (len(case['queued']), got[0], got[1], got[2], exp_log, exp_out, r[2]))
        elif kind != 'flush' and (got[0] != exp_log or got[1] != exp_out):
            chk.violation(kind, '%s:%s' % (kind, hash(str(case)) % 10 ** 8), {'case': case, 'expected': [exp_log, exp_out], 'observed': [got[0], got[1]]},
                          '%s packet: listeners were called as %s (outcome %s); the documented order gives %s (outcome %s)' % ('incoming' if kind == 'in' else 'outgoing', got[0], got[1], exp_log, exp_out))
    if metas:
        chk.sample('in', metas[0][3], k=1)


def run_sim(chk, n_cfg):
    """listeners through the real reactors: login then play, packets from a scripted server"""
    from minecraft.networking.connection import Connection
    from minecraft.networking.packets import Packet, clientbound as cb, serverbound as sb, KeepAlivePacket
    from minecraft.exceptions import IgnorePacket
    rng = chk.rng
    for cfg in range(n_cfg):
        pv = rng.choice([47, 340, 498, 578, 754, 757])
        ids = proto.Ids(pv)
        thr = rng.choice([None, 64])
        kids = [rng.randrange(1, 2 ** 31) for _ in range(rng.choice([1, 2, 3, 4, 4, 49, 50, 51, 120]))]      # bursts across the 50-reads-per-turn limit too
        frames = []
        if thr is not None:
            frames.append(proto.frame(ids.set_compression, proto.varint(thr)))
        frames.append(proto.frame(ids.login_success, ids.b_login_success(), thr))
        for kid in kids:
            frames.append(proto.frame(ids.keep_alive, ids.b_keep_alive(kid), thr))
        net = sim.Net([sim.Server(frames if rng.random() < 0.5 else [b''.join(frames)], end='idle')]).install()
        try:
            conn = Connection('localhost', 25565, username='user', allowed_versions={pv})
            log = []
            ignore_early = rng.random() < 0.4
            ignore_late = rng.random() < 0.4
            suppress_out = rng.random() < 0.4
            conn.register_packet_listener(lambda p: log.append(('late1', type(p).__name__)), cb.play.KeepAlivePacket, cb.login.LoginSuccessPacket)

            def early(p):
                log.append(('early', type(p).__name__))
                if ignore_early:
                    raise IgnorePacket()
            conn.register_packet_listener(early, cb.play.KeepAlivePacket, early=True)

            def late2(p):
                log.append(('late2', type(p).__name__))
                if ignore_late:
                    raise IgnorePacket()
            conn.register_packet_listener(late2, KeepAlivePacket)
            conn.register_packet_listener(lambda p: log.append(('late3', type(p).__name__)), Packet)

            marks = []
            on_wire = lambda: sum(len(x) for x in net.servers[0].sends)

            def eout(p):
                log.append(('eout', type(p).__name__))
                marks.append(('e', on_wire()))
                if suppress_out:
                    raise IgnorePacket()

            def out(p):
                log.append(('out', type(p).__name__))
                marks.append(('o', on_wire()))
            conn.register_packet_listener(eout, sb.play.KeepAlivePacket, outgoing=True, early=True)
            conn.register_packet_listener(out, sb.play.KeepAlivePacket, outgoing=True)
            conn.connect()
            net.run_threads(conn)
        finally:
            net.uninstall()
        # expected by the documented order
        exp = []
        if thr is not None:
            exp += [('late3', 'SetCompressionPacket')]
        exp += [('late1', 'LoginSuccessPacket'), ('late3', 'LoginSuccessPacket')]
        answered = 0
        for kid in kids:
            exp.append(('early', 'KeepAlivePacket'))
            if ignore_early:
                continue
            answered += 1
            exp += [('late1', 'KeepAlivePacket'), ('late2', 'KeepAlivePacket')]
            if not ignore_late:
                exp.append(('late3', 'KeepAlivePacket'))
        inc = [x for x in log if x[0] not in ('eout', 'out')]
        outl = [x for x in log if x[0] in ('eout', 'out')]
        exp_out = []
        for _ in range(answered):
            exp_out.append(('eout', 'KeepAlivePacket'))
            if not suppress_out:
                exp_out.append(('out', 'KeepAlivePacket'))
        sent = proto.parse_frames(b''.join(net.servers[0].sends), thr_at=None)  # client frames are parsed below with care
        case = {'proto': pv, 'threshold': thr, 'keep_alives': kids, 'ignore_early': ignore_early, 'ignore_late': ignore_late, 'suppress_out': suppress_out}
        chk.count('sim', case, ignore_early or ignore_late or suppress_out)
        nka = count_keepalive_frames(net.servers[0].sends, ids, thr)
        exp_frames = 0 if suppress_out else answered
        # the packet is on the wire between its early outgoing listener and its ordinary outgoing listener
        unwritten = [k for k in range(len(marks) - 1) if marks[k][0] == 'e' and marks[k + 1][0] == 'o' and not marks[k + 1][1] > marks[k][1]]
        if unwritten and inc == exp and outl == exp_out:
            chk.violation('sim', 'sim:unwritten:%s' % (hash(str(case)) % 10 ** 8), {'case': case, 'observed': {'bytes_on_wire_at_listener_calls': marks[:12]}},
                          'through the real reactors: the ordinary outgoing listener of keep-alive answer %d ran before that packet had been written (%d bytes on the wire before and after)' % (
                              unwritten[0] // 2, marks[unwritten[0]][1]))
        if inc != exp or outl != exp_out or nka != exp_frames:
            chk.violation('sim', 'sim:%s' % (hash(str(case)) % 10 ** 8), {'case': case, 'expected': [exp, exp_out, exp_frames], 'observed': [inc, outl, nka]},
                          'through the real reactors: incoming log %s (expected %s), outgoing log %s (expected %s), %d keep-alive frames on the wire (expected %d)' % (inc[:8], exp[:8], outl[:6], exp_out[:6], nka, exp_frames))


def count_keepalive_frames(sends, ids, thr):
    """count serverbound keep-alive frames among what the client sent (handshake + login start are written uncompressed)"""
    data = b''.join(sends)
    n, i, k = 0, 0, 0
    import zlib
    while i < len(data):
        ln, i = proto.rd_varint(data, i)
        fr = data[i:i + ln]
        i += ln
        if thr is not None and k >= 2:
            dl, j = proto.rd_varint(fr, 0)
            fr = zlib.decompress(fr[j:]) if dl else fr[j:]
        pid, _j = proto.rd_varint(fr, 0)
        if k >= 2 and pid == ids.sb_keep_alive:
            n += 1
        k += 1
    return n


def write_fault_dispatch(chk):
    """A write fails in one turn of the loop (the answer to a keep-alive can no longer be sent) while more packets are already
    readable: every packet the thread reads in that turn is still dispatched - early listeners, the built-in reaction, ordinary
    listeners, in that order - before the held write error ends the thread; with a disconnect packet among them the error is
    dropped and the packets before it were dispatched all the same."""
    from minecraft.networking.connection import Connection
    from minecraft.networking.packets import Packet
    import errno
    for pv in (47, 340, 757):
        ids = proto.Ids(pv)
        for thr in (None, 64):
            for tail in ('none', 'goodbye', 'no-fault'):
                pre = ([proto.frame(ids.set_compression, proto.varint(thr))] if thr is not None else []) + [proto.frame(ids.login_success, ids.b_login_success(), thr)]
                first = b''.join(pre) + proto.frame(ids.keep_alive, ids.b_keep_alive(41), thr)
                later = [('chat', proto.frame(ids.chat, ids.b_chat('{"text":"a"}'), thr)), ('unknown', proto.frame(0x7e, b'opaque', thr)),
                         ('ka', proto.frame(ids.keep_alive, ids.b_keep_alive(42), thr)), ('chat', proto.frame(ids.chat, ids.b_chat('{"text":"b"}'), thr))]
                from minecraft.networking.packets import clientbound as cb_
                pm = cb_.play.PluginMessagePacket.get_id(ids.ctx)
                # plugin messages, one of them with an empty payload (a packet is a packet, whatever it carries)
                later[1:1] = [('plugin', proto.frame(pm, proto.string('a:b') + b'', thr)), ('plugin', proto.frame(pm, proto.string('c:d') + b'\x01\x02', thr))]
                if tail == 'goodbye':
                    # (no answer may be pending when the goodbye is dispatched: disconnect() flushes the queue first, and a flush
                    #  onto the dead socket is a second write error raised from inside the reaction - outside this suite)
                    later = [x for x in later if x[0] != 'ka']
                    later.append(('bye', proto.frame(ids.play_disconnect, proto.string('{"text":"bye"}'), thr)))
                net = sim.Net([sim.Server([first], end='idle')]).install()
                log, excs = [], []
                orig_send = sim.SimSocket.send
                nsend = [0]

                def send(self_, data, orig=orig_send):
                    nsend[0] += 1
                    if nsend[0] > 4:
                        if nsend[0] == 5:
                            net.servers[0].chunks.append(b''.join(f for _n, f in later))
                        if tail != 'no-fault':
                            raise BrokenPipeError(errno.EPIPE, 'Broken pipe')
                    return orig(self_, data)
                sim.SimSocket.send = send
                try:
                    conn = Connection('localhost', 25565, username='user', allowed_versions={pv}, handle_exception=lambda e, i: excs.append(e))
                    conn.register_packet_listener(lambda p: log.append(('early', p.id)), Packet, early=True)
                    conn.register_packet_listener(lambda p: log.append(('late', p.id)), Packet)
                    conn.connect()
                    net.run_threads(conn)
                finally:
                    sim.SimSocket.send = orig_send
                    net.uninstall()
                want_ids = [ids.set_compression] * (thr is not None) + [ids.login_success, ids.keep_alive] + [
                    {'chat': ids.chat, 'unknown': 0x7e, 'ka': ids.keep_alive, 'bye': ids.play_disconnect, 'plugin': pm}[n] for n, _f in later]
                exp = [(w, i) for i in want_ids for w in ('early', 'late')]
                # the model's turn: an IOError (EPIPE) held back from the write phase, then the packets that are readable
                m_out, m_n = run_model([('loop_turn_n', [[[errno.EPIPE, True]] if tail != 'no-fault' else [], [[n == 'bye', [], n == 'bye'] for n, _f in later]])])[0]
                if tail == 'no-fault':
                    m_out = [1]                 # (no error is held: nothing is reported; the turn goes on)
                exp_err = [] if m_out == [1] else ['IOError']
                if m_n != len(later) or (m_out == [1]) != (tail in ('goodbye', 'no-fault')):
                    chk.broken('write-fault-dispatch', 'the model dispatches %d of %d packets and ends with %s' % (m_n, len(later), m_out))
                case = {'proto': pv, 'threshold': thr, 'after_the_failed_write': [n for n, _f in later]}
                chk.count('write-fault-dispatch', case, True)
                got_err = [exn_name(e) for e in excs]
                if log != exp or got_err != exp_err:
                    missing = [x for x in exp if x not in log]
                    chk.violation('write-fault-dispatch', 'write-fault-dispatch:%d:%s:%s' % (pv, thr, tail), {'case': case, 'expected': [exp, exp_err], 'observed': [log, got_err]},
                                  'protocol %d threshold %s: a keep-alive answer failed with EPIPE while %s were readable: %d of %d listener calls happened (first missing: %s), errors %s (expected %s)' % (
                                      pv, thr, [n for n, _f in later], len(log), len(exp), missing[:1], got_err, exp_err))


def run(chk):
    common.standard_proof(chk, 'Properties/C13.v')
    th = chk.tier == 'thorough'
    run_direct(chk, 3000 if th else 400)
    run_sim(chk, 300 if th else 40)
    write_fault_dispatch(chk)
    chk.assumptions += ['isinstance / issubclass are Python\'s; the model takes the subclass relation as an arbitrary parameter and the harness supplies the real one']


def replay(chk, rp):
    run(chk)
