"""C05 - every packet class round-trips under every supported protocol version."""
import itertools, uuid, io, importlib
from fractions import Fraction
import common, codec, gen, gen_tables
import reent
from codec import Buf
from common import run_model, res_decode, exn_name

RULE = ('every supported protocol version x every class registered in the 8 state/direction tables x several value assignments '
        '(boundary, zero, seeded random; every action/event variant and optional-field combination of the hand-written packets): real '
        'write_fields bytes vs the extracted model encoder over the reified definition (or the layout program of the six hand-written '
        'classes, whose feature flags are found by probing the real encoder), real read vs model decoder, exact consumption, '
        're-encoding of the decoded packet, id on the frame = reified id, decoder-table lookup gives the same class, repr() does not '
        'raise; plus randomly generated field-list definitions turned into real Packet subclasses. Non-trivial = at least one field; '
        'distinct by (version, class, values).')


def varint(n):
    out = bytearray()
    while True:
        b = n & 0x7f
        n >>= 7
        out.append(b | (0x80 if n else 0))
        if not n:
            return bytes(out)


# ---------------------------------------------------------------- values per type

def nbt_value(rng, i):
    import pynbt
    if i == 0:
        return pynbt.TAG_Compound({})
    d = {'a': pynbt.TAG_Int(rng.randrange(-2 ** 31, 2 ** 31)), 'name': pynbt.TAG_String('minecraft:x' * rng.randrange(0, 3)),
         'l': pynbt.TAG_List(pynbt.TAG_Long, [pynbt.TAG_Long(rng.randrange(-2 ** 63, 2 ** 63)) for _ in range(rng.randrange(0, 4))]),
         'c': pynbt.TAG_Compound({'b': pynbt.TAG_Byte(rng.randrange(-128, 128)), 'f': pynbt.TAG_Float(1.5), 'd': pynbt.TAG_Double(-2.25),
                                  'ba': pynbt.TAG_Byte_Array([1, 2, 3]), 'ia': pynbt.TAG_Int_Array([7, -7]), 'e': pynbt.TAG_List(pynbt.TAG_Compound, [])}),
         's': pynbt.TAG_Short(-3)}
    if hasattr(pynbt, 'TAG_Long_Array'):
        d['la'] = pynbt.TAG_Long_Array([2 ** 40, -1])
    return pynbt.TAG_Compound(d)


def nbt_bytes(v):
    from minecraft.networking.types import basic as B
    b = Buf()
    B.NBT.send(v, b)
    return bytes(b.out)


def pick(rng, i, lo, hi, extra=()):
    if i == 0:
        return lo
    if i == 1:
        return hi
    if i == 2:
        return 0 if lo <= 0 <= hi else lo
    c = [lo, hi, lo + 1, hi - 1] + [e for e in extra if lo <= e <= hi]
    return rng.choice(c) if rng.random() < 0.3 else rng.randrange(lo, hi + 1)


def gen_value(ty, rng, i, pv=None, ctx=None):
    """-> (python value for the real encoder, model value term)"""
    from minecraft.networking.types import basic as B
    from minecraft.networking.types import utility as U
    k = ty[0]
    R = {'UnsignedByte': (0, 255), 'Byte': (-128, 127), 'Short': (-32768, 32767), 'UnsignedShort': (0, 65535),
         'Integer': (-2 ** 31, 2 ** 31 - 1), 'Long': (-2 ** 63, 2 ** 63 - 1), 'UnsignedLong': (0, 2 ** 64 - 1),
         'VarInt': (0, 2 ** 32 - 1), 'VarLong': (0, 2 ** 64 - 1)}
    if k == 'Boolean':
        v = (i % 2 == 0) if i < 3 else rng.random() < 0.5
        return v, [0, 1 if v else 0]
    if k in R:
        v = pick(rng, i, R[k][0], R[k][1], (127, 128, 255, 256, 16383, 16384, 2 ** 21 - 1, 2 ** 21, 2 ** 28 - 1, 2 ** 28))
        return v, [1, v]
    if k in ('Float', 'Double'):
        eb, mb = (8, 23) if k == 'Float' else (11, 52)
        tot = 1 + eb + mb
        special = [((1 << eb) - 1) << mb, (((1 << eb) - 1) << mb) | (1 << (tot - 1)), (((1 << eb) - 2) << mb) | ((1 << mb) - 1), 1, (1 << mb) - 1, 1 << mb]
        while True:
            # i >= 3: now and then an infinity, the largest finite value, the smallest subnormal / largest subnormal / smallest normal
            bits = [0, ((1 << (eb - 1)) - 1) << mb, 1 << (tot - 1)][i] if i < 3 else (rng.choice(special) if rng.random() < 0.15 else rng.getrandbits(tot))
            if not (((bits >> mb) & ((1 << eb) - 1)) == (1 << eb) - 1 and bits & ((1 << mb) - 1)):
                break
        return codec.bits_float(bits, eb, mb), [1, bits]
    if k == 'String':
        # i >= 3: now and then a string whose character count and UTF-8 byte count fall on different sides of a length-prefix boundary
        if i >= 3 and rng.random() < 0.25:
            v = rng.choice(['\u00e9' * 64, '\u4e2d' * 43, '\U0001f600' * 32, '\u00e9' * 127, '\u4e2d' * 100, '\u0416' * 90, 'x' * 127, 'x' * 128, '\u00e9' * 8192, '\ufeffname', '\ufeff', 'e\u0301', ' lead and trail ', '\u200bzw'])
            return v, [2, [ord(c) for c in v]]
        v = ['', 'héllo€\U0001f600', 'x' * 130][i] if i < 3 else ''.join(chr(rng.choice([rng.randrange(32, 127), rng.randrange(0xa0, 0x800), rng.randrange(0x800, 0xd800), rng.randrange(0x10000, 0x10400)])) for _ in range(rng.randrange(0, 20)))
        return v, [2, [ord(c) for c in v]]
    if k == 'UUID':
        v = str(uuid.UUID(int=[0, 2 ** 128 - 1, 1][i] if i < 3 else rng.getrandbits(128)))
        return v, [2, [ord(c) for c in v]]
    if k == 'Angle':
        b = [0, 255, 64][i] if i < 3 else rng.randrange(256)
        v = b * 360 / 256
        return v, [4] + list(codec.dyadic(v))
    if k == 'Fixed':
        lo, hi = R[ty[1][0]]
        lo, hi = max(lo, -2 ** 52), min(hi, 2 ** 52)
        m = pick(rng, i, lo, hi)
        v = m / 2 ** ty[2]
        return v, [4] + list(codec.dyadic(v))
    if k in ('ShortPrefixedByteArray', 'VarIntPrefixedByteArray', 'TrailingByteArray'):
        v = [b'', bytes(range(256)), b'\x00'][i] if i < 3 else bytes(rng.randrange(256) for _ in range(rng.randrange(0, 200)))
        return v, [3, list(v)]
    if k == 'Position':
        x, y, z = pick(rng, i, -2 ** 25, 2 ** 25 - 1), pick(rng, (i + 1) % 4, -2 ** 11, 2 ** 11 - 1), pick(rng, (i + 2) % 4, -2 ** 25, 2 ** 25 - 1)
        v = (x, y, z) if i % 2 else B.Position(x, y, z)
        return v, [6, [[1, x], [1, y], [1, z]]]
    if k == 'NBT':
        v = nbt_value(rng, i)
        return v, [3, list(nbt_bytes(v))]
    if k == 'Array':
        n = [0, 1, 3][i] if i < 3 else rng.randrange(0, 6)
        if ty[1][0] in ('Byte',):
            n = min(n, 127)
        el = [gen_value(ty[2], rng, 3 if i >= 3 else (i + j) % 3, pv, ctx) for j in range(n)]
        return [e[0] for e in el], [5, [e[1] for e in el]]
    if k == 'Custom':
        c = codec.CUSTOM.index(ty[1])
        obj = codec.ft_obj(ty)
        if c == 0:
            t = tuple(pick(rng, (i + j) % 4, -128, 127) for j in range(3))
            return obj(*t), [6, [[1, e] for e in t]]
        if c == 1:
            t = (pick(rng, i, -2 ** 21, 2 ** 21 - 1), pick(rng, (i + 1) % 4, -2 ** 19, 2 ** 19 - 1), pick(rng, (i + 2) % 4, -2 ** 21, 2 ** 21 - 1))
            return obj(*t), [6, [[1, e] for e in t]]
        if c == 2:
            new = ctx.protocol_later_eq(741)
            x, z = pick(rng, i, 0, 15), pick(rng, (i + 1) % 4, 0, 15)
            y = pick(rng, (i + 2) % 4, 0, 15 if new else 255)
            sid = pick(rng, i, 0, 2 ** 51 - 1 if new else 2 ** 31 - 1)
            return obj(x=x, y=y, z=z, block_state_id=sid), [6, [[1, x], [1, y], [1, z], [1, sid]]]
        if c == 3:
            t = tuple(pick(rng, (i + j) % 4, -2 ** 31, 2 ** 31 - 1) / 8.0 for j in range(3))
            return U.Vector(*t), [6, [[4] + list(codec.dyadic(e)) for e in t]]
        if c == 4:
            # start from the wire value; the Python value is what the real decoder makes of it
            if ctx.protocol_later_eq(201):
                while True:
                    w = [0, 0x3f800000, 0x42fe0000][i] if i < 3 else rng.getrandbits(32)
                    if (w >> 23) & 0xff != 0xff:
                        break
                raw = bytes((w >> (8 * (3 - j))) & 0xff for j in range(4))
            else:
                w = [0, 127, -128][i] if i < 3 else rng.randrange(-128, 128)
                raw = bytes([w % 256])
            return obj.read_with_context(Buf(raw), ctx), [1, w]
    raise ValueError(ty)


def same(ty, mval, got):
    """does the decoded Python value denote the model value that was sent?"""
    k = ty[0]
    if k == 'NBT':
        try:
            return nbt_bytes(got) == bytes(mval[1])
        except Exception:
            return False
    if k == 'Array':
        return isinstance(got, list) and len(got) == len(mval[1]) and all(same(ty[2], a, b) for a, b in zip(mval[1], got))
    if k == 'Custom' and codec.CUSTOM.index(ty[1]) == 4:
        return True        # judged at wire level by the re-encoding comparison
    if k == 'TrailingByteArray' or k in ('ShortPrefixedByteArray', 'VarIntPrefixedByteArray'):
        return bytes(got) == bytes(mval[1])
    return codec.eq_model(ty, mval, got)


def cctx_of(ctx):
    """the context flags the nested types consult, probed from the real encoders at this version"""
    from minecraft.networking.types import basic as B
    b = Buf()
    B.Position.send_with_context((1, 2, 3), b, ctx)
    zy = bytes(b.out) == (((1 << 38) | (3 << 12) | 2).to_bytes(8, 'big'))
    rec = codec.ft_obj(['Custom', codec.CUSTOM[2]])
    b = Buf()
    rec.send_with_context(rec(x=1, y=2, z=3, block_state_id=5), b, ctx)
    new = bytes(b.out) == varint(5 << 12 | 1 << 8 | 3 << 4 | 2)
    pit = codec.ft_obj(['Custom', codec.CUSTOM[4]])
    b = Buf()
    pit.send_with_context(0.0, b, ctx)
    return [zy, new, len(b.out) == 4]


# ---------------------------------------------------------------- the six hand-written packets

def cls_of(q):
    mod, qn = q.split(':')
    o = importlib.import_module('minecraft.networking.packets.' + mod)
    for part in qn.split('.'):
        o = getattr(o, part)
    return o


def dbl(x):
    x = float(x)
    return [1, codec.float_bits(x, 11, 52)]


def s_(x):
    return [2, [ord(c) for c in x]]


class Custom(object):
    """One hand-written packet class: flag space, spec generator, spec -> real packet, spec -> model values."""
    which = None
    nflags = 0

    def combos(self):
        return [list(c) for c in itertools.product([False, True], repeat=self.nflags)]

    def adapt(self, spec, flags):
        return spec

    def fields_of(self, q, flags):
        raise NotImplementedError


class PluginResponse(Custom):
    which, nflags, name = 0, 0, gen_tables.CUSTOM_PACKETS[0]

    def specs(self, rng, n):
        out = [dict(message_id=0, successful=False, data=None), dict(message_id=2 ** 31 - 1, successful=True, data=b''),
               dict(message_id=5, successful=True, data=bytes(range(256))),
               # 'successful' left unassigned: it is implied by the presence of data (None = unsuccessful; b'' is data)
               dict(message_id=6, successful=True, data=b'', implied=True), dict(message_id=7, successful=False, data=None, implied=True),
               dict(message_id=8, successful=True, data=b'\x00', implied=True)]
        while len(out) < n:
            s = rng.random() < 0.6
            out.append(dict(message_id=rng.randrange(2 ** 31), successful=s, data=bytes(rng.randrange(256) for _ in range(rng.randrange(0, 60))) if s else None))
        return out[:n]

    def build(self, cls, ctx, spec, flags):
        kw = {k: v for k, v in spec.items() if k != 'implied' and not (k == 'successful' and spec.get('implied'))}
        return cls(context=ctx, **kw)

    def values(self, spec, flags):
        return [[1, spec['message_id']], [0, int(spec['successful'])]] + ([[3, list(spec['data'])]] if spec['successful'] else [])

    def fields_of(self, q, flags):
        return dict(message_id=q.message_id, successful=q.successful, data=q.data)


class FacePlayer(Custom):
    which, nflags, name = 1, 1, gen_tables.CUSTOM_PACKETS[1]

    def specs(self, rng, n):
        out = [dict(origin=0, x=0.0, y=64.5, z=-3.25, entity_id=None, entity_origin=None),
               dict(origin=1, x=1e10, y=-0.0, z=2.0 ** -30, entity_id=2 ** 31 - 1, entity_origin=1),
               dict(origin=1, x=-7.0, y=8.0, z=9.0, entity_id=0, entity_origin=0)]
        while len(out) < n:
            e = rng.random() < 0.5
            out.append(dict(origin=rng.randrange(2), x=rng.randrange(-10 ** 6, 10 ** 6) / 64, y=rng.randrange(-4096, 4096) / 16, z=rng.randrange(-10 ** 6, 10 ** 6) / 32,
                            entity_id=rng.randrange(2 ** 31) if e else None, entity_origin=rng.randrange(2) if e else None))
        return out[:n]

    def adapt(self, spec, flags):
        s = dict(spec)
        if not flags[0]:
            s.pop('origin'), s.pop('entity_origin')
            if s['entity_id'] is not None:
                s.pop('x'), s.pop('y'), s.pop('z')
        elif s['entity_id'] is None:
            s.pop('entity_origin')
        return s

    def build(self, cls, ctx, spec, flags):
        return cls(context=ctx, **dict({'entity_id': None}, **spec))

    def values(self, spec, flags):
        ent = spec['entity_id'] is not None
        if flags[0]:
            return [[1, spec['origin']], dbl(spec['x']), dbl(spec['y']), dbl(spec['z']), [0, int(ent)]] + ([[1, spec['entity_id']], [1, spec['entity_origin']]] if ent else [])
        return [[0, int(ent)]] + ([[1, spec['entity_id']]] if ent else [dbl(spec['x']), dbl(spec['y']), dbl(spec['z'])])

    def fields_of(self, q, flags):
        return {k: getattr(q, k) for k in ('origin', 'x', 'y', 'z', 'entity_id', 'entity_origin') if hasattr(q, k)}


class CombatEvent(Custom):
    which, nflags, name = 2, 1, gen_tables.CUSTOM_PACKETS[2]

    def specs(self, rng, n):
        out = [dict(ev=0), dict(ev=1, duration=2 ** 31 - 1, entity_id=-2 ** 31), dict(ev=2, player_id=0, entity_id=7, message='{"text":"déad"}')]
        while len(out) < n:
            ev = rng.randrange(3)
            out.append([dict(ev=0), dict(ev=1, duration=rng.randrange(2 ** 31), entity_id=rng.randrange(-2 ** 31, 2 ** 31)),
                        dict(ev=2, player_id=rng.randrange(2 ** 31), entity_id=rng.randrange(-2 ** 31, 2 ** 31), message='m' * rng.randrange(0, 200))][ev])
        for d in out:
            d['ev_class'] = ['EnterCombatEvent', 'EndCombatEvent', 'EntityDeadEvent'][d['ev']]      # the decoded event is an instance of the library's class
        return out[:n]

    def build(self, cls, ctx, spec, flags):
        E = [cls.EnterCombatEvent, cls.EndCombatEvent, cls.EntityDeadEvent][spec['ev']]
        return cls(context=ctx, event=E(**{k: v for k, v in spec.items() if k not in ('ev', 'ev_class')}))

    def values(self, spec, flags):
        ev = spec['ev']
        return [[1, ev]] + ([] if ev == 0 else [[1, spec['duration']], [1, spec['entity_id']]] if ev == 1 else
                            [[1, spec['player_id']], [1, spec['entity_id']], s_(spec['message'])])

    def fields_of(self, q, flags):
        e = q.event
        sl = type(e).__slots__
        return dict({'ev': e.id, 'ev_class': type(e).__name__}, **{k: getattr(e, k) for k in ((sl,) if isinstance(sl, str) else tuple(sl))})


class SpawnObject(Custom):
    which, nflags, name = 3, 3, gen_tables.CUSTOM_PACKETS[3]

    def specs(self, rng, n):
        u = str(uuid.UUID(int=0x0123456789abcdef0011223344556677))
        out = [dict(entity_id=1, object_uuid=u, type_id=70, x=-5, y=64, z=2 ** 31 - 1, pitch=90.0, yaw=358.59375, data=0, velocity_x=1, velocity_y=-2, velocity_z=3),
               dict(entity_id=2 ** 31 - 1, object_uuid=u, type_id=1, x=0, y=0, z=-2 ** 31, pitch=0.0, yaw=0.0, data=5, velocity_x=-32768, velocity_y=32767, velocity_z=0),
               dict(entity_id=0, object_uuid=u, type_id=127, x=1, y=2, z=3, pitch=45.0, yaw=180.0, data=-1, velocity_x=9, velocity_y=9, velocity_z=9)]
        while len(out) < n:
            out.append(dict(entity_id=rng.randrange(2 ** 31), object_uuid=str(uuid.UUID(int=rng.getrandbits(128))), type_id=rng.randrange(0, 128),
                            x=rng.randrange(-2 ** 31, 2 ** 31), y=rng.randrange(-2 ** 31, 2 ** 31), z=rng.randrange(-2 ** 31, 2 ** 31),
                            pitch=rng.randrange(256) * 360 / 256, yaw=rng.randrange(256) * 360 / 256, data=rng.choice([0, 0, 1, -1, rng.randrange(-2 ** 31, 2 ** 31)]),
                            velocity_x=rng.randrange(-32768, 32768), velocity_y=rng.randrange(-32768, 32768), velocity_z=rng.randrange(-32768, 32768)))
        return out[:n]

    def adapt(self, spec, flags):
        f49, f458, f100 = flags
        s = dict(spec)
        if not f49:
            s.pop('object_uuid')
            if s['data'] <= 0:
                s.pop('velocity_x'), s.pop('velocity_y'), s.pop('velocity_z')
        if f100:
            for a in 'xyz':
                s[a] = s[a] + 0.5 if abs(s[a]) < 2 ** 30 else float(s[a])
        return s

    def build(self, cls, ctx, spec, flags):
        return cls(context=ctx, **spec)

    def values(self, spec, flags):
        f49, f458, f100 = flags
        xyz = [dbl(spec[a]) if f100 else [1, spec[a]] for a in 'xyz']
        v = [[1, spec['entity_id']]] + ([s_(spec['object_uuid'])] if f49 else []) + [[1, spec['type_id']]] + xyz
        v += [[4] + list(codec.dyadic(spec['pitch'])), [4] + list(codec.dyadic(spec['yaw'])), [1, spec['data']]]
        if f49 or spec['data'] > 0:
            v += [[1, spec['velocity_x']], [1, spec['velocity_y']], [1, spec['velocity_z']]]
        return v

    def fields_of(self, q, flags):
        return {k: getattr(q, k) for k in ('entity_id', 'object_uuid', 'type_id', 'x', 'y', 'z', 'pitch', 'yaw', 'data', 'velocity_x', 'velocity_y', 'velocity_z') if hasattr(q, k)}


class PlayerListItem(Custom):
    which, nflags, name = 4, 0, gen_tables.CUSTOM_PACKETS[4]

    def item(self, rng, a):
        u = str(uuid.UUID(int=rng.getrandbits(128)))
        if a == 0:
            props = [dict(name='textures', value='v' * rng.randrange(0, 40), signature=rng.choice([None, 'sig', ''])) for _ in range(rng.randrange(0, 3))]
            return dict(uuid=u, name='P%d' % rng.randrange(1000), properties=props, gamemode=rng.randrange(4), ping=rng.randrange(2 ** 31), display_name=rng.choice([None, '{"text":"x"}', '']))
        if a == 1:
            return dict(uuid=u, gamemode=rng.randrange(4))
        if a == 2:
            return dict(uuid=u, ping=rng.randrange(2 ** 31))
        if a == 3:
            return dict(uuid=u, display_name=rng.choice([None, 'näme']))
        return dict(uuid=u)

    def specs(self, rng, n):
        out = [dict(action=a, items=[self.item(rng, a) for _ in range(k)]) for a in range(5) for k in (0, 2)]
        while len(out) < n:
            a = rng.randrange(5)
            out.append(dict(action=a, items=[self.item(rng, a) for _ in range(rng.randrange(0, 5))]))
        return out[:max(n, 10)]

    def build(self, cls, ctx, spec, flags):
        A = [cls.AddPlayerAction, cls.UpdateGameModeAction, cls.UpdateLatencyAction, cls.UpdateDisplayNameAction, cls.RemovePlayerAction][spec['action']]
        acts = []
        for it in spec['items']:
            d = dict(it)
            if 'properties' in d:
                d['properties'] = [cls.PlayerProperty(**p) for p in d['properties']]
            acts.append(A(**d))
        return cls(context=ctx, action_type=A, actions=acts)

    def values(self, spec, flags):
        a = spec['action']
        opt = lambda x: [[0, 0]] if x is None else [[0, 1], s_(x)]
        items = []
        for it in spec['items']:
            f = [s_(it['uuid'])]
            if a == 0:
                f += [s_(it['name']), [5, [[6, [s_(p['name']), s_(p['value'])] + opt(p['signature'])] for p in it['properties']]], [1, it['gamemode']], [1, it['ping']]] + opt(it['display_name'])
            elif a == 1:
                f += [[1, it['gamemode']]]
            elif a == 2:
                f += [[1, it['ping']]]
            elif a == 3:
                f += opt(it['display_name'])
            items.append([6, f])
        return [[1, a], [5, items]]

    def fields_of(self, q, flags):
        items = []
        for act in q.actions:
            sl = type(act).__slots__
            d = {k: getattr(act, k) for k in ('uuid',) + ((sl,) if isinstance(sl, str) else tuple(sl))}
            if 'properties' in d:
                d['properties'] = [dict(name=p.name, value=p.value, signature=p.signature) for p in d['properties']]
            items.append(d)
        return dict(action=q.action_type.action_id, items=items)


class Map(Custom):
    which, nflags, name = 5, 5, gen_tables.CUSTOM_PACKETS[5]

    def combos(self):
        # tracking position is sent at most once
        return [c for c in Custom.combos(self) if not (c[0] and c[2])]

    def specs(self, rng, n):
        ic = lambda: (rng.randrange(16), rng.randrange(16), rng.randrange(-128, 128), rng.randrange(-128, 128), rng.choice([None, 'näme', '']))
        out = [dict(map_id=3, scale=1, tracking=True, locked=False, icons=[(2, 9, -5, 5, 'x'), (15, 0, 127, -128, None)], width=2, height=3, offset=(-3, 4), pixels=bytes(range(6))),
               dict(map_id=2 ** 31 - 1, scale=-128, tracking=False, locked=True, icons=[], width=0, height=0, offset=None, pixels=None),
               dict(map_id=0, scale=127, tracking=False, locked=False, icons=[(0, 15, 0, 0, '')], width=255, height=255, offset=(127, -128), pixels=b'\x07' * 300)]
        while len(out) < n:
            w = rng.choice([0, 1, 16, 128, 255])
            out.append(dict(map_id=rng.randrange(2 ** 31), scale=rng.randrange(-128, 128), tracking=rng.random() < 0.5, locked=rng.random() < 0.5,
                            icons=[ic() for _ in range(rng.randrange(0, 4))], width=w, height=rng.randrange(0, 256) if w else 0,
                            offset=(rng.randrange(-128, 128), rng.randrange(-128, 128)) if w else None, pixels=bytes(rng.randrange(256) for _ in range(rng.randrange(0, 64))) if w else None))
        return out[:n]

    def adapt(self, spec, flags):
        te, lk, tl, iv, nm = flags
        s = dict(spec)
        if not (te or tl):
            s['tracking'] = True
        if not lk:
            s['locked'] = False
        if not nm:
            s['icons'] = [i[:4] + (None,) for i in s['icons']]
        return s

    def build(self, cls, ctx, spec, flags):
        p = cls(context=ctx, map_id=spec['map_id'], scale=spec['scale'], is_tracking_position=spec['tracking'], is_locked=spec['locked'],
                icons=[cls.MapIcon(type=t, direction=d, location=(x, z), display_name=nm) for t, d, x, z, nm in spec['icons']],
                width=spec['width'], height=spec['height'], offset=spec['offset'], pixels=spec['pixels'])
        return p

    def values(self, spec, flags):
        te, lk, tl, iv, nm = flags
        v = [[1, spec['map_id']], [1, spec['scale']]]
        if te:
            v.append([0, int(spec['tracking'])])
        if lk:
            v.append([0, int(spec['locked'])])
        if tl:
            v.append([0, int(spec['tracking'])])
        icons = []
        for t, d, x, z, name in spec['icons']:
            f = [[1, t], [1, x], [1, z], [1, d]] if iv else [[1, t << 4 | d], [1, x], [1, z]]
            if nm:
                f += [[0, 0]] if name is None else [[0, 1], s_(name)]
            icons.append([6, f])
        v.append([5, icons])
        v.append([1, spec['width']])
        if spec['width']:
            v += [[1, spec['height']], [1, spec['offset'][0]], [1, spec['offset'][1]], [3, list(spec['pixels'])]]
        return v

    def fields_of(self, q, flags):
        return dict(map_id=q.map_id, scale=q.scale, tracking=q.is_tracking_position, locked=q.is_locked,
                    icons=[(i.type, i.direction, i.location[0], i.location[1], i.display_name) for i in q.icons],
                    width=q.width, height=q.height, offset=q.offset, pixels=None if q.pixels is None else bytes(q.pixels))


CUSTOMS = {c.name: c for c in (PluginResponse(), FacePlayer(), CombatEvent(), SpawnObject(), PlayerListItem(), Map())}


def vnorm(m):
    """model value term with dyadic rationals in lowest terms"""
    if isinstance(m, list) and m and m[0] == 4:
        return [4, str(Fraction(m[1], 2 ** m[2]))]
    if isinstance(m, list) and m and m[0] in (5, 6):
        return [m[0], [vnorm(x) for x in m[1]]]
    return m


def norm(x):
    if isinstance(x, (bytearray, bytes)):
        return bytes(x)
    if isinstance(x, dict):
        return {k: norm(v) for k, v in x.items()}
    if isinstance(x, (list, tuple)):
        return [norm(v) for v in x]
    return x


def write_fields(p):
    from minecraft.networking.packets import PacketBuffer
    b = PacketBuffer()
    p.write_fields(b)
    return b.get_writable()


def frame_of(p):
    s = Buf()
    p.write(s, None)
    return bytes(s.out)


# ---------------------------------------------------------------- the check

_USER = []


def user_subclasses():
    """An application may subclass the record / event / enum classes nested in packet classes (to add behaviour); defining such
    a subclass changes nothing in what the library writes or decodes.  Defined once per process, kept alive."""
    if _USER:
        return len(_USER)
    import importlib
    from minecraft.networking.connection import ConnectionContext
    seen = set()
    for d in ('clientbound', 'serverbound'):
        for st in ('handshake', 'status', 'login', 'play'):
            m = importlib.import_module('minecraft.networking.packets.%s.%s' % (d, st))
            for pv in (47, 340, 578, 754, 757):
                for cls in m.get_packets(ConnectionContext(protocol_version=pv)):
                    stack = [v for v in vars(cls).values() if isinstance(v, type)]
                    for base in cls.__mro__[1:]:
                        stack += [v for v in vars(base).values() if isinstance(v, type)]
                    while stack:
                        k = stack.pop()
                        if k in seen or not getattr(k, '__module__', '').startswith('minecraft.'):
                            continue
                        seen.add(k)
                        stack += [v for v in vars(k).values() if isinstance(v, type)]
                        stack += [x for x in k.__subclasses__() if getattr(x, '__module__', '').startswith('minecraft.')]
    for k in seen:
        try:
            _USER.append(type('User' + k.__name__, (k,), {'__module__': 'application'}))
        except Exception:
            pass
    return len(_USER)


def run(chk, only=None):
    bad = common.lint()
    if bad:
        chk.broken('lint', '; '.join(bad[:10]))
    t = gen.prepare(chk, ('Tables',))
    ok, out = chk.prove('Properties/C05.v', extra_q=[(chk.gen_dir, 'Gen')])
    from minecraft.networking.connection import ConnectionContext, PacketReactor
    from minecraft.networking.packets import Packet
    rng, th = chk.rng, chk.tier == 'thorough'
    n_user = user_subclasses()
    chk.assumptions.append('before the round trips an application-style subclass was defined for each of the %d record / event / enum classes nested in packet classes (and their library subclasses): the library still decodes to its own classes' % n_user)
    pos = {p: i for i, p in enumerate(t['known_protocols'])}
    sup = t['supported_protocols']
    if only:
        sup = [p for p in sup if p in only]
    K = 8 if th else 3
    before = len(chk.violations)
    kcoll = {k['key'] for k in chk.kf.get('open', []) if k.get('property') == 'C05'}

    # -------- finite part failed? find the offending (version, class)
    if not ok:
        for pv in t['supported_protocols']:
            per = t['per_version'][pos[pv]]
            for tn in gen_tables.TABLE_NAMES:
                for q in per['tables'][tn]:
                    e = per['classes'][q]
                    if (e['custom_read'] or e['custom_write']):
                        if q not in CUSTOMS:
                            chk.violation('tables', 'unmodelled:%s' % q, {'case': {'proto': pv, 'class': q}}, '%s overrides read/write_fields and has no layout model' % q)
                    elif not isinstance(e['def'], list):
                        chk.violation('tables', 'nodef:%d:%s' % (pv, q), {'case': {'proto': pv, 'class': q, 'definition': e['def']}},
                                      '%s has no usable definition at protocol %d (%r)' % (q, pv, e['def']))

    # -------- definition-driven classes
    jobs = []      # (pv, q, tn, ctx, cls, defn, [(py, model)], cctx, pkt, bytes | exc)
    cc_cache = {}
    for pv in sup:
        per = t['per_version'][pos[pv]]
        ctx = ConnectionContext(protocol_version=pv)
        cc = cctx_of(ctx)
        cc_cache[pv] = cc
        seen = set()
        for tn in gen_tables.TABLE_NAMES:
            for q in per['tables'][tn]:
                if q in seen or q in CUSTOMS:
                    continue
                seen.add(q)
                e = per['classes'][q]
                if not isinstance(e['def'], list) or e['custom_read'] or e['custom_write']:
                    continue
                cls = cls_of(q)
                for i in range(K):
                    vals = [gen_value(ty, rng, i if i < 3 else 3, pv, ctx) for _n, ty in e['def']]
                    jobs.append((pv, q, tn, ctx, cls, e, vals, cc))
    run_defn_jobs(chk, jobs, t, pos, kcoll)
    run_hopping(chk, jobs, kcoll)

    # -------- random field-list definitions (user-defined packets)
    jobs = []
    simple = [['Boolean'], ['UnsignedByte'], ['Byte'], ['Short'], ['UnsignedShort'], ['Integer'], ['Long'], ['UnsignedLong'], ['Float'], ['Double'],
              ['VarInt'], ['VarLong'], ['String'], ['UUID'], ['Angle'], ['ShortPrefixedByteArray'], ['VarIntPrefixedByteArray'], ['Position'],
              ['Fixed', ['Integer'], 5], ['Fixed', ['Short'], 3], ['Fixed', ['Byte'], 1], ['Fixed', ['Long'], 12]]

    def rty(d):
        if d > 0 and rng.random() < 0.3:
            return ['Array', rng.choice([['VarInt'], ['Short'], ['UnsignedByte'], ['Integer'], ['Byte']]), rty(d - 1)]
        return rng.choice(simple)
    arr = lambda lt, et: ['Array', [lt], et]
    fixed_defs = [[['a', arr('VarInt', arr('VarInt', ['Position']))]], [['a', arr('Short', ['Position'])], ['b', ['VarInt']]],
                  [['a', arr('VarInt', arr('Byte', arr('VarInt', ['Position'])))]], [['p', ['Position']], ['a', arr('UnsignedByte', arr('VarInt', ['String']))]]]
    for n in range(300 if th else 60):
        nf = rng.randrange(0, 7)
        d = [['f%d' % j, rty(2)] for j in range(nf)]
        if n < len(fixed_defs):
            d = fixed_defs[n]       # nested arrays whose leaves need the connection's context: defined on every run
        if rng.random() < 0.3:
            d.append(['tail', ['TrailingByteArray']])
        pv = rng.choice(t['supported_protocols'])
        ctx = ConnectionContext(protocol_version=pv)
        pid = rng.randrange(0, 300)
        cls = type('UserPacket%d' % n, (Packet,), {'id': pid, 'packet_name': 'user %d' % n, 'definition': [{nm: codec.ft_obj(ty)} for nm, ty in d]})
        e = {'def': d, 'id': pid, 'name': 'user'}
        for i in range(3):
            vals = [gen_value(ty, rng, 3, pv, ctx) for _n, ty in d]
            jobs.append((pv, 'user:%d' % n, None, ctx, cls, e, vals, cctx_of(ctx)))
        chk.tally('user_defn_fields:%d' % len(d))
    run_defn_jobs(chk, jobs, t, pos, kcoll, suite='user')

    # -------- the six hand-written classes
    for name, C in CUSTOMS.items():
        run_custom(chk, C, t, pos, sup, cc_cache, kcoll)

    if not ok and len(chk.violations) == before:
        chk.broken('Properties/C05.v', out)
    chk.assumptions += ['NBT fields are an abstract codec: the model carries the bytes pynbt produced and a splitter validated on them',
                        'repr() is exercised on every generated packet (written and read back); it has no model beyond totality',
                        'SoundEffectPacket.Pitch is generated from wire values (the float division by 63.5 is not modelled)']


def run_hopping(chk, jobs, kcoll):
    """A sample of the definition-driven jobs again through ONE context object whose protocol_version is reassigned between
    packets (Connection reassigns it while negotiating): bytes, frame and id must be those of a fresh context of that version
    (which run_defn_jobs has compared with the model)."""
    from minecraft.networking.connection import ConnectionContext
    rng = chk.rng
    sample = rng.sample(jobs, min(len(jobs), 6000 if chk.tier == 'thorough' else 1200))
    shared = ConnectionContext(protocol_version=sample[0][0]) if sample else None
    prev = None
    for pv, q, tn, ctx, cls, e, vals, cc in sample:
        if not isinstance(e['id'], int):
            continue
        def build(c):
            p = cls(context=c)
            for (nm, _ty), (py, _m) in zip(e['def'], vals):
                setattr(p, nm, py)
            return p
        try:
            bi0 = write_fields(build(ctx))
        except Exception:
            continue                 # reported by run_defn_jobs
        shared.protocol_version = pv
        chk.count('reused-context', [pv, q, bi0.hex()[:300]], len(e['def']) > 0)
        what = None
        try:
            p1 = build(shared)
            if rng.random() < 0.3:
                try:
                    p1.write(reent.FailingSink(rng.choice([0, 1])))      # a write whose socket broke must not leave anything behind
                except Exception:
                    pass
            bi1 = write_fields(p1)
            body = varint(e['id']) + bi0
            if bi1 != bi0:
                what = 'write_fields produced %s; a fresh context of that version gives %s' % (bi1.hex()[:60], bi0.hex()[:60])
            elif frame_of(p1) != varint(len(body)) + body:
                what = 'frame is %s; expected id 0x%02X + fields' % (frame_of(p1).hex()[:60], e['id'])
            else:
                qk = cls(context=shared)
                rb = Buf(bi0)
                qk.read(rb)
                if rb.pos != len(bi0):
                    what = 'read consumed %d of %d payload bytes' % (rb.pos, len(bi0))
                elif write_fields(qk) != bi0:
                    what = 're-encoding the decoded packet gives different bytes'
                elif qk.id != e['id']:
                    what = 'packet.id is %r, registered id is 0x%02X' % (qk.id, e['id'])
        except Exception as ex:
            what = 'raised %s' % exn_name(ex)
        if what:
            chk.violation('reused-context', 'reused:%s:%s' % (pv, q), {'case': {'proto': pv, 'previous_proto_on_this_context': prev, 'class': q, 'values': repr([v[0] for v in vals])[:600]}, 'observed': what},
                          '%s at protocol %s on a context previously at protocol %s: %s' % (q, pv, prev, what))
        prev = pv


def run_defn_jobs(chk, jobs, t, pos, kcoll, suite='defn'):
    from minecraft.networking.connection import PacketReactor
    ereq, live = [], []
    for job in jobs:
        pv, q, tn, ctx, cls, e, vals, cc = job
        p = cls(context=ctx)
        for (nm, _ty), (py, _m) in zip(e['def'], vals):
            setattr(p, nm, py)
        try:
            bi = write_fields(p)
        except Exception as ex:
            chk.violation(suite, 'write:%s:%s:%s' % (pv, q, exn_name(ex)), {'case': {'proto': pv, 'class': q, 'values': repr([v[0] for v in vals])[:600]}, 'observed': repr(ex)[:200]},
                          '%s at protocol %s: write_fields raised %s on wire-representable values' % (q, pv, exn_name(ex)))
            continue
        ereq.append(('encode_fields', [cc, [codec.ft_sx(ty) for _n, ty in e['def']], [m for _py, m in vals]]))
        live.append((job, p, bi))
    em = run_model(ereq)
    dm = run_model([('decode_fields', [cc, [codec.ft_sx(ty) for _n, ty in e['def']], bi]) for (pv, q, tn, ctx, cls, e, vals, cc), p, bi in live])
    reactors = {}
    for ((pv, q, tn, ctx, cls, e, vals, cc), p, bi), me, md in zip(live, em, dm):
        chk.count(suite, [pv, q, bi.hex()[:400]], len(e['def']) > 0)
        chk.tally('%s:%s' % (suite, tn or 'user'))
        case = {'proto': pv, 'class': q, 'values': repr([v[0] for v in vals])[:800], 'bytes': bi.hex()[:800]}
        key = '%s:%s:%s' % (suite, pv if suite == 'defn' else 'u', q)
        me = res_decode(me, lambda r: bytes(r))
        if me[0] != 'ok' or me[1] != bi:
            chk.violation(suite, key + ':enc', dict(case=case, expected=me[1].hex()[:800] if me[0] == 'ok' else list(me), observed=bi.hex()[:800]),
                          '%s at protocol %s: write_fields produced %s, the layout prescribes %s' % (q, pv, bi.hex()[:60], me[1].hex()[:60] if me[0] == 'ok' else me))
            continue
        # read back
        qk = cls(context=ctx)
        rb = Buf(bi)
        try:
            qk.read(rb)
        except Exception as ex:
            chk.violation(suite, key + ':read', dict(case=case, observed=repr(ex)[:200]), '%s at protocol %s: reading its own encoding raised %s' % (q, pv, exn_name(ex)))
            continue
        md = res_decode(md)
        what = None
        if rb.pos != len(bi):
            what = 'read consumed %d of %d payload bytes' % (rb.pos, len(bi))
        elif md[0] != 'ok' or md[1][1] != []:
            what = 'model decoder disagrees: %r' % (repr(md)[:100],)
        else:
            for (nm, ty), (py, m), mv in zip(e['def'], vals, md[1][0]):
                if not hasattr(qk, nm):
                    what = 'field %s missing after read' % nm
                    break
                if not same(ty, m, getattr(qk, nm)):
                    what = 'field %s read back as %r, written %r' % (nm, repr(getattr(qk, nm))[:80], repr(py)[:80])
                    break
        if what is None:
            try:
                if write_fields(qk) != bi:
                    what = 're-encoding the decoded packet gives different bytes'
            except Exception as ex:
                what = 're-encoding the decoded packet raised %s' % exn_name(ex)
        if what is None:
            what = check_frame_and_repr(chk, p, qk, e['id'], bi, pv, q, tn, ctx, reactors, kcoll, t, pos)
        if what:
            chk.violation(suite, key + ':rt', dict(case=case, observed=what), '%s at protocol %s: %s' % (q, pv, what))
    if live:
        (pv, q, tn, ctx, cls, e, vals, cc), p, bi = live[len(live) // 2]
        chk.sample(suite, {'proto': pv, 'class': q, 'bytes': bi.hex()[:80]}, k=2)


def check_frame_and_repr(chk, p, qk, rid, bi, pv, q, tn, ctx, reactors, kcoll, t, pos):
    from minecraft.networking.connection import PacketReactor, ConnectionContext
    if not isinstance(rid, int):
        return 'no registered id (%r)' % (rid,)
    try:
        fr = frame_of(p)
    except Exception as ex:
        return 'Packet.write raised %s' % exn_name(ex)
    body = varint(rid) + bi
    if fr != varint(len(body)) + body:
        return 'frame is %s, expected length prefix + id 0x%02X + fields' % (fr.hex()[:60], rid)
    if p.id != rid or qk.id != rid:
        return 'packet.id is %r, registered id is 0x%02X' % (p.id, rid)
    for x in (p, qk):
        try:
            r = repr(x)
            if not isinstance(r, str):
                return 'repr returned %r' % type(r)
        except Exception as ex:
            return 'repr raised %s: %s' % (exn_name(ex), str(ex)[:100])
    if tn and tn.startswith('clientbound'):
        # reading the frame through the decoder table of that version/state selects the same class
        if (pv, tn) not in reactors:
            class R(PacketReactor):
                get_clientbound_packets = staticmethod(importlib.import_module('minecraft.networking.packets.' + tn).get_packets)
            class Cn(object):
                pass
            cn = Cn()
            cn.context = ConnectionContext(protocol_version=pv)
            reactors[(pv, tn)] = R(cn).clientbound_packets
        got = reactors[(pv, tn)].get(rid)
        if got is not type(p):
            # the nine listed id collisions are C06's (and C05's) known findings
            for c in gen_tables.collisions(t):
                if c['proto'] == pv and c['table'] == tn and c.get('kind') == 'collision' and q in c['classes']:
                    chk.violation('sameclass', gen_tables.finding_key(c), {'case': {'proto': pv, 'table': tn, 'id': rid, 'classes': c['classes']}},
                                  'protocol %d %s: %s share id 0x%02X: a written frame of one is decoded as the other' % (pv, tn, ' and '.join(x.split(':')[-1] for x in c['classes']), rid))
                    return None
            return 'decoder table of %s maps id 0x%02X to %s' % (tn, rid, getattr(got, '__name__', got))
    return None


def run_custom(chk, C, t, pos, sup, cc_cache, kcoll):
    from minecraft.networking.connection import ConnectionContext
    rng, th = chk.rng, chk.tier == 'thorough'
    cls = cls_of(C.name)
    specs = C.specs(rng, 14 if th else 8)
    probes = specs[:3]
    combos = C.combos()
    # which versions register it
    vers = []
    for pv in sup:
        per = t['per_version'][pos[pv]]
        tn = next((tn for tn in gen_tables.TABLE_NAMES if C.name in per['tables'][tn]), None)
        if tn:
            vers.append((pv, tn, per['classes'][C.name]))
    # ---- probe the feature flags: the combination under which the layout program reproduces the real encoder
    impl = {}
    reqs, idx = [], []
    for pv, tn, e in vers:
        ctx = ConnectionContext(protocol_version=pv)
        for ci, fl in enumerate(combos):
            row = []
            for si, sp in enumerate(probes):
                a = C.adapt(sp, fl)
                try:
                    b = write_fields(C.build(cls, ctx, a, fl))
                except Exception as ex:
                    b = 'exc:' + exn_name(ex)
                impl[(pv, ci, si)] = b
                reqs.append(('enc_prog', [cc_cache[pv], C.which, fl, C.values(a, fl)]))
                idx.append((pv, ci, si))
    res = run_model(reqs)
    match = {}
    for (pv, ci, si), r in zip(idx, res):
        r = res_decode(r, lambda x: bytes(x))
        b = impl[(pv, ci, si)]
        good = (r[0] == 'ok' and r[1] == b) or (r[0] == 'err' and isinstance(b, str))
        match.setdefault((pv, ci), []).append(good)
    flags_of = {}
    for pv, tn, e in vers:
        okc = [ci for ci in range(len(combos)) if all(match[(pv, ci)])]
        if not okc:
            # no layout reproduces the encoder: look for a concrete round-trip failure on the real code
            ctx = ConnectionContext(protocol_version=pv)
            found = False
            for sp in specs:
                # a genuine failure is one that no reading of the version flags can explain
                ws = [(impl_roundtrip(C, cls, ctx, C.adapt(sp, fl), fl), fl) for fl in combos]
                if all(w for w, _fl in ws):
                    msgs = [w for w, _fl in ws]
                    w = max(set(msgs), key=msgs.count)
                    fl = next(f for m, f in ws if m == w)
                    chk.violation('custom', 'custom:%s:%d' % (C.name, pv), {'case': {'proto': pv, 'class': C.name, 'spec': repr(C.adapt(sp, fl))[:600]}, 'observed': w},
                                  '%s at protocol %d: %s' % (C.name.split(':')[-1], pv, w))
                    found = True
                    break
            if not found:
                chk.broken('custom-layout:%s:%d' % (C.name, pv), 'no feature-flag combination of the layout program reproduces write_fields at protocol %d' % pv)
            continue
        flags_of[pv] = combos[okc[0]]
        chk.tally('flags:%s:%s' % (C.name.split(':')[-1], ''.join('1' if f else '0' for f in combos[okc[0]])))
    # ---- correspondence and round trip with the probed flags
    reqs, meta = [], []
    reactors = {}
    kept = {}
    for pv, tn, e in vers:
        if pv not in flags_of:
            continue
        fl = flags_of[pv]
        ctx = ConnectionContext(protocol_version=pv)
        for sp in specs:
            a = C.adapt(sp, fl)
            chk.count('custom', [pv, C.name, repr(a)[:300]], True)
            case = {'proto': pv, 'class': C.name, 'flags': fl, 'spec': repr(a)[:700]}
            try:
                p = C.build(cls, ctx, a, fl)
                given = {k: v for k, v in vars(p).items() if k != 'context'}           # the fields as the caller assigned them
                bi = write_fields(p)
            except Exception as ex:
                if C.which == 2 and fl[0]:
                    continue          # removed packet: raising is its documented behaviour
                chk.violation('custom', 'custom:%s:%d:write' % (C.name, pv), dict(case=case, observed=repr(ex)[:200]),
                              '%s at protocol %d: write_fields raised %s on wire-representable values' % (C.name.split(':')[-1], pv, exn_name(ex)))
                continue
            # one packet object kept per version and written again and again with the fields of each spec in turn (fields the new
            # spec leaves unassigned are removed): every write is that of a fresh object with the same fields
            if pv not in kept:
                kept[pv] = (cls(context=ctx), set())
            obj, ours = kept[pv]
            for k in ours - set(given):
                if k in vars(obj):
                    delattr(obj, k)
            for k, v in given.items():
                setattr(obj, k, v)
            kept[pv] = (obj, set(given))
            try:
                again = write_fields(obj)
            except Exception as ex:
                again = 'raised ' + exn_name(ex)
            if again != bi:
                chk.violation('custom', 'custom:%s:%d:reused-object' % (C.name, pv), dict(case=case, expected=bi.hex()[:300], observed=again.hex()[:300] if isinstance(again, bytes) else again),
                              '%s at protocol %d: a packet object written before with other field values writes %s; a fresh object with the same fields writes %s' % (
                                  C.name.split(':')[-1], pv, again.hex()[:60] if isinstance(again, bytes) else again, bi.hex()[:60]))
                continue
            w = impl_roundtrip(C, cls, ctx, a, fl)
            if w is None:
                q2 = cls(context=ctx)
                q2.read(Buf(bi))
                w = check_frame_and_repr(chk, p, q2, e['id'], bi, pv, C.name, tn, ctx, reactors, kcoll, t, pos)
            if w:
                chk.violation('custom', 'custom:%s:%d:rt' % (C.name, pv), dict(case=case, observed=w), '%s at protocol %d: %s' % (C.name.split(':')[-1], pv, w))
                continue
            reqs.append(('enc_prog', [cc_cache[pv], C.which, fl, C.values(a, fl)]))
            reqs.append(('dec_prog', [cc_cache[pv], C.which, fl, bi]))
            meta.append((pv, fl, a, bi, case))
    res = run_model(reqs)
    for k, (pv, fl, a, bi, case) in enumerate(meta):
        me = res_decode(res[2 * k], lambda r: bytes(r))
        md = res_decode(res[2 * k + 1])
        if me[0] != 'ok' or me[1] != bi:
            chk.violation('custom', 'custom:%s:%d:enc' % (C.name, pv), dict(case=case, expected=me[1].hex()[:600] if me[0] == 'ok' else list(me), observed=bi.hex()[:600]),
                          '%s at protocol %d: write_fields produced %s, the layout prescribes %s' % (C.name.split(':')[-1], pv, bi.hex()[:60], me[1].hex()[:60] if me[0] == 'ok' else me))
        elif md[0] != 'ok' or md[1][1] != [] or [vnorm(x) for x in md[1][0]] != [vnorm(x) for x in C.values(a, fl)]:
            chk.violation('custom', 'custom:%s:%d:dec' % (C.name, pv), dict(case=case, observed=repr(md)[:300]),
                          '%s at protocol %d: the layout decodes the written bytes to different values' % (C.name.split(':')[-1], pv))
    if meta:
        chk.sample('custom', {'proto': meta[0][0], 'class': C.name, 'flags': meta[0][1], 'bytes': meta[0][3].hex()[:80]}, k=6)


def impl_roundtrip(C, cls, ctx, a, fl):
    """the property's own oracle on the real code: write, read back, compare fields, exact consumption, re-encode"""
    try:
        bi = write_fields(C.build(cls, ctx, a, fl))
    except Exception as ex:
        return 'write raised %s' % exn_name(ex)
    q = cls(context=ctx)
    rb = Buf(bi)
    try:
        q.read(rb)
    except Exception as ex:
        return 'reading its own encoding raised %s' % exn_name(ex)
    if rb.pos != len(bi):
        return 'read consumed %d of %d payload bytes' % (rb.pos, len(bi))
    got = norm(C.fields_of(q, fl))
    exp = norm({k: v for k, v in a.items() if k != 'implied'})
    for k in exp:
        if k not in got:
            if exp[k] is None:
                continue
            return 'field %s missing after read' % k
        if got[k] != exp[k]:
            return 'field %s read back as %r, written %r' % (k, repr(got[k])[:80], repr(exp[k])[:80])
    try:
        if write_fields(q) != bi:
            return 're-encoding the decoded packet gives different bytes'
    except Exception as ex:
        return 're-encoding the decoded packet raised %s' % exn_name(ex)
    return None


def replay(chk, rp):
    c = rp.get('case', {})
    pv = c.get('proto')
    run(chk, only=[pv] if isinstance(pv, int) else None)
