"""C08 - protocol versions totally ordered by publication; derived tables agree."""
import os, sys, json, itertools
import common, gen
from common import run_model, res_decode, exn_name

RULE = ('proof: universal theorems over all record lists + kernel evaluation on the reified records. correspondence: '
        '(a) all pairs of the 369 known protocol numbers (plus unknown numbers) through utility.protocol_earlier/_eq and '
        'the five ConnectionContext predicates vs the model and vs the order axioms; in_range over (start,end) pairs from a '
        'boundary set (all PRE numbers, layout switches, neighbours) x every known version; (b) generated histories of '
        'run-time record extensions (append / insert in the middle / duplicate ids and protocols / unsupported / release-like ids, '
        'legacy supported-dict edits) each followed by initglobals in either mode, all seven tables compared with the model, and contexts created before the first extension re-asked after every step. '
        'Non-trivial = pair of distinct numbers, or a history with at least one extension; distinct by canonical case.')

TABLES = ['KNOWN_MINECRAFT_VERSIONS', 'KNOWN_PROTOCOL_VERSIONS', 'PROTOCOL_VERSION_INDICES', 'SUPPORTED_MINECRAFT_VERSIONS',
          'SUPPORTED_PROTOCOL_VERSIONS', 'RELEASE_MINECRAFT_VERSIONS', 'RELEASE_PROTOCOL_VERSIONS']


def observe(mc):
    return [[[gen.id_code(k), v] for k, v in mc.KNOWN_MINECRAFT_VERSIONS.items()],
            list(mc.KNOWN_PROTOCOL_VERSIONS),
            [[k, v] for k, v in mc.PROTOCOL_VERSION_INDICES.items()],
            [[gen.id_code(k), v] for k, v in mc.SUPPORTED_MINECRAFT_VERSIONS.items()],
            list(mc.SUPPORTED_PROTOCOL_VERSIONS),
            [[gen.id_code(k), v] for k, v in mc.RELEASE_MINECRAFT_VERSIONS.items()],
            list(mc.RELEASE_PROTOCOL_VERSIONS)]


def call(f, *a):
    try:
        return ['ok', bool(f(*a))]
    except Exception as e:
        return ['err', exn_name(e)]


def dec(r):
    d = res_decode(r, lambda v: bool(v))
    return list(d)


def check_predicates(chk, quick_subset=None):
    import minecraft
    from minecraft import utility
    from minecraft.networking.connection import ConnectionContext
    idx = [[k, v] for k, v in minecraft.PROTOCOL_VERSION_INDICES.items()]
    known = list(minecraft.KNOWN_PROTOCOL_VERSIONS)
    unknown = [-1, 6, 999, minecraft.PRE | 4, minecraft.PRE | 999, 2 ** 31]
    allp = known + unknown
    pairs = [(p, q) for p in allp for q in allp if not (p in unknown and q in unknown and p != q)]
    model = run_model([('cmp_batch', [idx, [list(pq) for pq in pairs]])])[0]
    pos = {p: i for i, p in enumerate(known)}
    for (p, q), m in zip(pairs, model):
        exp = [dec(m[0]), dec(m[1])]
        ctxp = ConnectionContext(protocol_version=p)
        got = [call(utility.protocol_earlier, p, q), call(utility.protocol_earlier_eq, p, q)]
        got_ctx = [call(ctxp.protocol_earlier, q), call(ctxp.protocol_earlier_eq, q),
                   call(ctxp.protocol_later, q), call(ctxp.protocol_later_eq, q)]
        chk.count('predicates', [p, q], p != q)
        bad = None
        if got != exp:
            bad = 'utility.protocol_earlier/_eq(%d, %d) = %r; model %r' % (p, q, got, exp)
        elif p in pos and q in pos:
            # order axioms against the chronological position, independently of the model
            want = [['ok', pos[p] < pos[q]], ['ok', pos[p] <= pos[q]]]
            if got != want:
                bad = 'protocol_earlier/_eq(%d, %d) = %r but chronological positions are %d, %d' % (p, q, got, pos[p], pos[q])
            elif got_ctx != [want[0], want[1], ['ok', pos[q] < pos[p]], ['ok', pos[q] <= pos[p]]]:
                bad = 'ConnectionContext(%d) earlier/earlier_eq/later/later_eq(%d) = %r inconsistent with utility' % (p, q, got_ctx)
        if bad:
            chk.violation('predicates', 'pred:%d:%d' % (p, q), {'case': {'p': p, 'q': q}, 'expected': exp, 'observed': [got, got_ctx]}, bad)
    chk.tally('predicates:known-pairs', len(known) ** 2)
    chk.sample('predicates', {'p': known[5], 'q': known[300], 'earlier': call(utility.protocol_earlier, known[5], known[300])}, k=1)
    # in_range
    PRE = minecraft.PRE
    bset = [p for p in known if p >= PRE]
    for b in (0, 4, 5, 47, 49, 107, 110, 210, 340, 393, 404, 441, 443, 451, 452, 477, 498, 573, 578, 701, 721, 735, 741, 751, 753, 754, 755, 756, 757):
        if b in pos:
            bset.append(b)
    if chk.tier == 'thorough':
        bset = sorted(set(bset + known[::3]), key=lambda p: pos[p])
    triples = [[pv, a, b] for a in bset for b in bset for pv in known]
    triples += [[pv, a, b] for pv in (47, 999) for a in (107, 998) for b in (404, 997)]
    model = run_model([('in_range_batch', [idx, triples])])[0]
    for (pv, a, b), m in zip(triples, model):
        exp = dec(m)
        got = call(ConnectionContext(protocol_version=pv).protocol_in_range, a, b)
        chk.count('in_range', [pv, a, b], a != b)
        bad = None
        if got != exp:
            bad = 'ConnectionContext(%d).protocol_in_range(%d, %d) = %r; model %r' % (pv, a, b, got, exp)
        elif pv in pos and a in pos and b in pos and got != ['ok', pos[a] <= pos[pv] < pos[b]]:
            bad = 'protocol_in_range(%d in [%d,%d)) = %r disagrees with later_eq/earlier' % (pv, a, b, got)
        if bad:
            chk.violation('in_range', 'range:%d:%d:%d' % (pv, a, b), {'case': {'pv': pv, 'start': a, 'end': b}, 'expected': exp, 'observed': got}, bad)
    chk.sample('in_range', {'pv': 404, 'start': 393, 'end': 477, 'observed': call(ConnectionContext(protocol_version=404).protocol_in_range, 393, 477)}, k=1)


# ---------------------------------------------------------------- histories

def gen_history(rng, base):
    """A history: list of ops applied to the module's record list / supported dict, each followed by initglobals."""
    ops = []
    n = rng.randrange(1, 7)
    fresh_p = [758, 759, 760, 900, (1 << 30) | 70, (1 << 30) | 71, 6, 7]
    fresh_id = ['1.19', '1.19.1', '22w01a', '1.19-pre1', '1.20', 'x', '2.0.0', '26.1', '10.0.2', '100.1', '1.19\n', '1.', '.1', '1..2', '١.٢']
    for _ in range(n):
        k = rng.random()
        if k < 0.55:
            recs = []
            for _ in range(rng.randrange(1, 4)):
                vid = rng.choice(fresh_id + [b[0] for b in rng.sample(base, 2)])
                proto = rng.choice(fresh_p + [b[1] for b in rng.sample(base, 2)])
                recs.append([vid, proto, rng.random() < 0.7])
            where = rng.choice(['end', 'mid', 'start'])
            ops.append(['extend', where, rng.randrange(0, 10 ** 6), recs, rng.random() < 0.85])
        elif k < 0.75:
            ops.append(['set_supported', rng.choice(fresh_id + [b[0] for b in rng.sample(base, 2)]),
                        rng.choice(fresh_p + [b[1] for b in rng.sample(base, 1)]), True])   # legacy: edit dict, initglobals()
        elif k < 0.82:
            ops.append(['init', rng.random() < 0.5])
        elif k < 0.9:
            b = rng.choice(base)
            ops.append(['replace', rng.randrange(0, 10 ** 6), rng.choice([[b[0], b[1], not b[2]], [rng.choice(fresh_id), b[1], b[2]], [b[0], rng.choice(fresh_p), True]])])
        elif k < 0.93:
            ops.append(['rebind'])
        else:
            ops.append(['remove', rng.randrange(0, 10 ** 6), True])
    return ops


def run_history(chk, base, ops, suite='history'):
    """Runs one history on impl (mutating the module in place, restored afterwards) and on the model."""
    import minecraft as mc
    saved = list(mc.KNOWN_MINECRAFT_VERSION_RECORDS)
    saved_obj = mc.KNOWN_MINECRAFT_VERSION_RECORDS
    import types
    held = types.SimpleNamespace(**{t: getattr(mc, t) for t in TABLES})       # what `from minecraft import <table>` gave another module
    try:
        mc.KNOWN_MINECRAFT_VERSION_RECORDS[:] = [mc.Version(*b) for b in base]
        mc.initglobals(use_known_records=True)
        recs = [list(b) for b in base]
        enc = lambda rs: [[gen.id_code(r[0]), r[1], r[2], gen.looks_like_release(r[0])] for r in rs]
        rel_ids = lambda extra: sorted(set(gen.id_code(x) for x in extra if gen.looks_like_release(x)))
        seen_ids = set(r[0] for r in recs)
        state = run_model([('initglobals', [True, rel_ids(seen_ids), enc(recs), [[], [], [], [], [], [], []]])])[0]
        steps = []
        # contexts that exist before the records are extended must keep comparing by the current chronological position
        from minecraft.networking.connection import ConnectionContext
        kp = list(mc.KNOWN_PROTOCOL_VERSIONS)
        old_ctx = [ConnectionContext(protocol_version=p) for p in (kp if len(kp) < 20 else kp[::17] + kp[-3:])]
        for op in ops:
            if op[0] == 'extend':
                _o, where, r, new, known_mode = op
                pos = len(recs) if where == 'end' else 0 if where == 'start' else r % (len(recs) + 1)
                recs[pos:pos] = [list(x) for x in new]
                mc.KNOWN_MINECRAFT_VERSION_RECORDS[pos:pos] = [mc.Version(*x) for x in new]
                use = known_mode
            elif op[0] == 'replace':
                # one record edited in place (support switched on or off, renamed, renumbered): length and neighbours unchanged
                pos = op[1] % len(recs)
                recs[pos] = list(op[2])
                mc.KNOWN_MINECRAFT_VERSION_RECORDS[pos] = mc.Version(*op[2])
                use = True
            elif op[0] == 'rebind':
                # the module attribute is given a new list object with the same records (the library user "updates" the name)
                mc.KNOWN_MINECRAFT_VERSION_RECORDS = list(mc.KNOWN_MINECRAFT_VERSION_RECORDS)
                use = True
            elif op[0] == 'remove':
                if len(recs) > 1:
                    pos = op[1] % len(recs)
                    del recs[pos]
                    del mc.KNOWN_MINECRAFT_VERSION_RECORDS[pos]
                use = True
            elif op[0] == 'set_supported':
                _o, vid, proto, _ = op
                mc.SUPPORTED_MINECRAFT_VERSIONS[vid] = proto
                state[3] = run_model([('od_set', [state[3], gen.id_code(vid), proto])])[0]
                seen_ids.add(vid)
                use = False
            else:
                use = op[1]
            seen_ids |= set(r[0] for r in recs)
            mc.initglobals(use_known_records=use)
            state = run_model([('initglobals', [use, rel_ids(seen_ids), enc(recs), state])])[0]
            got = observe(mc)
            steps.append(op[0])
            if got != state:
                for name, g, m in zip(TABLES, got, state):
                    if g != m:
                        d = next(i for i, (x, y) in enumerate(itertools.zip_longest(g, m)) if x != y)
                        return ('after %s + initglobals(use_known_records=%s): %s differs from the projection at position %d '
                                '(impl %r, spec %r)' % (op[0], use, name, d, g[d] if d < len(g) else None, m[d] if d < len(m) else None))
            # updates are made by reference: a module that imported a table by name sees the update
            via_import = observe(held)
            if via_import != got:
                t = next(n for n, a, b in zip(TABLES, via_import, got) if a != b)
                return ('after %s + initglobals(use_known_records=%s): %s as imported by name before the update (from minecraft import %s) '
                        'still has %d entries; the module attribute has %d' % (op[0], use, t, t, len(via_import[TABLES.index(t)]), len(got[TABLES.index(t)])))
            # ... so the Connection constructor accepts exactly the supported protocols
            from minecraft.networking.connection import Connection
            sup, known = list(mc.SUPPORTED_PROTOCOL_VERSIONS), list(mc.KNOWN_PROTOCOL_VERSIONS)
            probes = sup[:1] + sup[-2:] + [q for q in known if q not in sup][-2:] + [r[1] for r in (op[3] if op[0] == 'extend' else [])][:3]
            # (a legacy edit may have put a protocol into the supported dict that the known records do not list: such a protocol has
            #  no chronological position, and what a Connection does with it is outside this property)
            placed = all(q in mc.PROTOCOL_VERSION_INDICES for q in sup)
            for q in probes if placed else []:
                try:
                    ok = Connection('localhost', 25565, allowed_versions={q}).allowed_proto_versions == {q}
                except ValueError:
                    ok = False
                if ok != (q in sup):
                    return ('after %s + initglobals(use_known_records=%s): Connection(allowed_versions={%d}) is %s; protocol %d is %s' % (
                        op[0], use, q, 'accepted' if ok else 'refused', q, 'supported' if q in sup else 'not supported'))
            if sup and placed and Connection('localhost', 25565).allowed_proto_versions != set(sup):
                return 'after %s + initglobals(use_known_records=%s): the default allowed set of a new Connection is not the supported set' % (op[0], use)
            # idempotence
            mc.initglobals(use_known_records=use)
            if observe(mc) != got:
                return 'initglobals(use_known_records=%s) is not idempotent after %r' % (use, steps)
            # index map consistent with the known list, order predicates total
            for i, p in enumerate(mc.KNOWN_PROTOCOL_VERSIONS):
                if mc.PROTOCOL_VERSION_INDICES.get(p) != i:
                    return 'PROTOCOL_VERSION_INDICES[%d] = %r but its position in KNOWN_PROTOCOL_VERSIONS is %d' % (
                        p, mc.PROTOCOL_VERSION_INDICES.get(p), i)
            kp = list(mc.KNOWN_PROTOCOL_VERSIONS)
            where = {p: i for i, p in enumerate(kp)}
            qs = kp if len(kp) < 20 else kp[::41] + [r[1] for r in (op[3] if op[0] == 'extend' else []) if r[1] in where] + kp[-2:]
            for c in old_ctx:
                p = c.protocol_version
                if p not in where:
                    continue
                for q in qs:
                    a, b = where[p], where[q]
                    got = [call(c.protocol_earlier, q), call(c.protocol_earlier_eq, q), call(c.protocol_later, q), call(c.protocol_later_eq, q),
                           call(c.protocol_in_range, q, kp[-1])]
                    want = [['ok', a < b], ['ok', a <= b], ['ok', a > b], ['ok', a >= b], ['ok', b <= a < len(kp) - 1]]
                    if got != want:
                        return ('after %s + initglobals(use_known_records=%s): a ConnectionContext(protocol_version=%d) created before the extension answers '
                                'earlier/earlier_eq/later/later_eq(%d), in_range(%d, %d) = %r; chronological positions are now %d and %d' % (
                                    op[0], use, p, q, q, kp[-1], [g[1] for g in got], a, b))
        return None
    finally:
        mc.KNOWN_MINECRAFT_VERSION_RECORDS = saved_obj
        mc.KNOWN_MINECRAFT_VERSION_RECORDS[:] = saved
        mc.initglobals(use_known_records=True)


def shrink_history(chk, base, ops):
    cur = ops
    changed = True
    while changed and len(cur) > 1:
        changed = False
        for i in range(len(cur)):
            cand = cur[:i] + cur[i + 1:]
            if run_history(chk, base, cand):
                cur, changed = cand, True
                break
    return cur


def tables_after_mismatch(chk):
    """The version tables are the library's own: a connection that is refused for its version (server protocol unknown,
    unsupported, or supported but not allowed) reports that - and leaves all seven tables exactly as they were."""
    import minecraft as mc, sim, proto, builtins
    from minecraft.networking.connection import Connection
    before = observe(mc)
    for server_pv, allowed in ((9999, [47, 757]), (3, [47, 757]), (47, [340, 757]), (1073741900, [47, 757]), (757, [47, 340])):
        status = {'version': {'name': 'x', 'protocol': server_pv}, 'description': 'x'}
        net = sim.Net([sim.Server([proto.frame(0, proto.string(json.dumps(status)))], end='idle'), sim.Server([], end='idle')]).install()
        excs = []
        rp = builtins.print
        builtins.print = lambda *a, **k: None
        try:
            conn = Connection('localhost', 25565, username='user', allowed_versions=allowed, handle_exception=lambda e, i: excs.append(e))
            conn.connect()
            net.run_threads(conn)
        finally:
            builtins.print = rp
            net.uninstall()
        after = observe(mc)
        chk.count('after-mismatch', [server_pv, allowed], True)
        if after != before:
            tn = next(n for n, a, b in zip(TABLES, after, before) if a != b)
            d = next(i for i, (x, y) in enumerate(itertools.zip_longest(after[TABLES.index(tn)], before[TABLES.index(tn)])) if x != y)
            chk.violation('after-mismatch', 'after-mismatch:%d' % server_pv, {'case': {'server_protocol': server_pv, 'allowed': allowed, 'reported': [exn_name(e) for e in excs]}, 'observed': tn},
                          'after a connection refused for its version (server protocol %d, allowed %s, reported %s) %s differs from before at position %d' % (
                              server_pv, allowed, [exn_name(e) for e in excs], tn, d))
            mc.initglobals(use_known_records=True)
            return


def check_histories(chk):
    t = chk.tables
    shipped = [list(r) for r in t['records']]
    small = [['a1', 1, True], ['1.0', 2, True], ['b', 2, False], ['1.1', 3, True], ['c', 1, True], ['1.2', (1 << 30) | 1, True], ['1.0', 2, True]]
    n = 400 if chk.tier == 'thorough' else 70
    corpus = os.path.join(common.VERIF, 'corpus', 'c08_histories.json')
    cases = []
    if os.path.exists(corpus):
        cases += json.load(open(corpus))
    for i in range(n):
        base = small if i % 3 else shipped
        cases.append([0 if base is small else 1, gen_history(chk.rng, base)])
    for which, ops in cases:
        base = shipped if which else small
        chk.count('history', [which, ops], any(o[0] in ('extend', 'set_supported', 'remove', 'replace') for o in ops))
        for o in ops:
            chk.tally('history:op:' + o[0])
        bad = run_history(chk, base, ops)
        if bad:
            ops = shrink_history(chk, base, ops)
            bad = run_history(chk, base, ops) or bad
            chk.violation('history', 'history:' + json.dumps([which, ops]), {'case': {'base': which, 'ops': ops}, 'observed': bad}, bad)
    chk.sample('history', {'base': 'small', 'ops': cases[-1][1]}, k=2)


def witness_tables(chk):
    """Search for the concrete difference when C08_tables_match / numeric order no longer checks."""
    t = chk.tables
    enc = [[gen.id_code(r[0]), r[1], r[2], gen.looks_like_release(r[0])] for r in t['records']]
    rel = sorted(set(gen.id_code(r[0]) for r in t['records'] if gen.looks_like_release(r[0])))
    m = run_model([('initglobals', [True, rel, enc, [[], [], [], [], [], [], []]])])[0]
    obs = [[[gen.id_code(k), v] for k, v in t['known_versions']], t['known_protocols'], t['indices'],
           [[gen.id_code(k), v] for k, v in t['supported_versions']], t['supported_protocols'],
           [[gen.id_code(k), v] for k, v in t['release_versions']], t['release_protocols']]
    found = False
    for name, g, mm in zip(TABLES, obs, m):
        if g != mm:
            d = next(i for i, (x, y) in enumerate(itertools.zip_longest(g, mm)) if x != y)
            chk.violation('tables', 'tables:' + name, {'case': {'table': name, 'position': d}, 'expected': mm[d] if d < len(mm) else None,
                                                       'observed': g[d] if d < len(g) else None},
                          'module table %s is not the projection of the version records at position %d' % (name, d))
            found = True
    known = t['known_protocols']
    idx = dict(map(tuple, t['indices']))
    ordinary = [p for p in known if p < t['PRE']]
    for a, b in zip(ordinary, ordinary[1:]):
        if not a < b:
            chk.violation('tables', 'numeric:%d:%d' % (a, b), {'case': {'p': a, 'q': b}},
                          'ordinary protocol numbers %d and %d are listed out of numeric order' % (a, b))
            found = True
    return found


def run(chk):
    bad = common.lint()
    if bad:
        chk.broken('lint', '; '.join(bad[:10]))
    gen.prepare(chk, ('Versions',))
    ok, out = chk.prove('Properties/C08.v', extra_q=[(chk.gen_dir, 'Gen')])
    if not ok:
        if not witness_tables(chk):
            chk.broken('Properties/C08.v', out)
    check_predicates(chk)
    check_histories(chk)
    tables_after_mismatch(chk)
    chk.assumptions += ['release-id test re.match(r"\\d+(\\.\\d+)+$") is transliterated by the harness (gen.looks_like_release); ids are compared through an injective integer code',
                        'OrderedDict / dict / list semantics of CPython']


def replay(chk, rp):
    gen.prepare(chk, ('Versions',))
    c = rp['case']
    if rp['suite'] == 'history':
        t = chk.tables
        shipped = [list(r) for r in t['records']]
        small = [['a1', 1, True], ['1.0', 2, True], ['b', 2, False], ['1.1', 3, True], ['c', 1, True], ['1.2', (1 << 30) | 1, True], ['1.0', 2, True]]
        base = shipped if c['base'] else small
        bad = run_history(chk, base, c['ops'])
        chk.count('history', c, True)
        if bad:
            chk.violation('history', rp['key'], {'case': c, 'observed': bad}, bad)
    elif rp['suite'] == 'tables':
        witness_tables(chk)
    else:
        check_predicates(chk)
