"""C17 - session server hash equals Java's signed-hex SHA-1."""
import hashlib
import common
from common import run_model, res_decode, exn_name

RULE = ('generate_verification_hash / minecraft_sha1_hash_digest vs the extracted model (Gallina SHA-1 + signed-hex) and vs an '
        'independent Java-BigInteger oracle: the three published vectors, digests with the named shapes found by search (top bit set, '
        'leading zero nibble, leading zero byte, 00 followed by a byte >= 0x80), non-ASCII server ids, seeded random triples; plus '
        'arbitrary digests fed to minecraft_sha1_hash_digest through a stub hash object. Non-trivial = every case; distinct by input.')


def java_hex(digest):
    """BigInteger(bytes).toString(16), written from the Java documentation."""
    n = 0
    for b in digest:
        n = n * 256 + b
    if digest and digest[0] >= 0x80:
        n -= 256 ** len(digest)
    neg = n < 0
    n = abs(n)
    ds = ''
    while n:
        ds = '0123456789abcdef'[n % 16] + ds
        n //= 16
    return ('-' if neg else '') + (ds or '0')


class FakeHash(object):
    def __init__(self, d):
        self.d = d

    def digest(self):
        return self.d

    def hexdigest(self):
        return self.d.hex()


def shapes(rng, n):
    """Search for inputs whose SHA-1 has the named shapes."""
    want = {'top': lambda d: d[0] >= 0x80, 'zero-nibble': lambda d: d[0] < 0x10 and d[0] > 0, 'zero-byte': lambda d: d[0] == 0,
            'zero-byte-then-high': lambda d: d[0] == 0 and d[1] >= 0x80, 'zero-byte-then-low': lambda d: d[0] == 0 and d[1] < 0x80}
    found = {k: [] for k in want}
    i = 0
    while any(len(v) < n for v in found.values()) and i < 400000:
        sid = 'srv%d' % i
        secret = bytes([i % 251, (i * 7) % 256]) * 8
        key = b'\x30\x81' + bytes([i % 256])
        d = hashlib.sha1(sid.encode() + secret + key).digest()
        for k, f in want.items():
            if len(found[k]) < n and f(d):
                found[k].append((sid, secret, key))
        i += 1
    return found


_KEYS = []


def key_encodings(rng):
    from cryptography.hazmat.primitives.asymmetric import rsa
    from cryptography.hazmat.primitives import serialization as S
    from cryptography.hazmat.backends import default_backend
    if not _KEYS:
        for bits in (1024, 2048):
            _KEYS.append(rsa.generate_private_key(public_exponent=65537, key_size=bits, backend=default_backend()).public_key())

    def der_len(n):
        if n < 128:
            return bytes([n])
        b = n.to_bytes((n.bit_length() + 7) // 8, 'big')
        return bytes([0x80 | len(b)]) + b
    out = []
    for k in _KEYS:
        spki = k.public_bytes(S.Encoding.DER, S.PublicFormat.SubjectPublicKeyInfo)
        pkcs1 = k.public_bytes(S.Encoding.DER, S.PublicFormat.PKCS1)
        algid = b'\x30\x0b\x06\x09\x2a\x86\x48\x86\xf7\x0d\x01\x01\x01'          # rsaEncryption, parameters omitted
        bitstr = b'\x03' + der_len(len(pkcs1) + 1) + b'\x00' + pkcs1
        nonull = b'\x30' + der_len(len(algid) + len(bitstr)) + algid + bitstr
        out += [spki, pkcs1, nonull, k.public_bytes(S.Encoding.PEM, S.PublicFormat.SubjectPublicKeyInfo), k.public_bytes(S.Encoding.PEM, S.PublicFormat.PKCS1),
                spki + b'\x00', spki[:-1], k.public_bytes(S.Encoding.OpenSSH, S.PublicFormat.OpenSSH)]
    return out


def login_joins(chk, java_hex):
    """Through a login: whatever the session service answers (accepts, refuses with 403 or 500, a token that can refresh
    itself), EVERY value the connection hands to join() is the hash of (server id, secret, key) - never anything else."""
    import sim, proto, c10
    from minecraft.networking.connection import Connection
    from minecraft.exceptions import YggdrasilError
    rng = chk.rng
    secret = bytes(range(200, 216))
    for sid in ('srv', '', 'e\u0301x', '\ufeffid', '-2d5e9c0f31aa7b44', '--', 'a-', ' -'):      # only the id '-' itself means offline mode
        for mode in ('accept', 'refuse-403', 'refuse-403-then-accept', 'refuse-500'):
            pv = rng.choice([47, 340, 757])
            ids = proto.Ids(pv)
            frames, cut = c10.build_server(ids, [('enc', sid, b'tokn')])
            calls = []

            class Token(object):
                class profile(object):
                    name = 'ProfileName'
                    id_ = 'pid'
                authenticated = True
                access_token, client_token, username = 'acc', 'cli', 'u'

                def join(self, server_id):
                    calls.append(('join', server_id))
                    n = sum(1 for c in calls if c[0] == 'join')
                    if mode == 'refuse-500' or mode == 'refuse-403' or (mode == 'refuse-403-then-accept' and n == 1):
                        raise YggdrasilError(status_code=500 if mode == 'refuse-500' else 403, yggdrasil_error='ForbiddenOperationException', yggdrasil_message='Invalid token')
                    return True

                def refresh(self):
                    calls.append(('refresh',))
                    return True

                def validate(self):
                    calls.append(('validate',))
                    return True

                def __bool__(self):
                    return True
            net = sim.Net([sim.Server([b''.join(frames)], end='idle')], urandom=secret).install()
            try:
                conn = Connection('localhost', 25565, auth_token=Token(), allowed_versions={pv}, handle_exception=lambda e, i: None)
                conn.connect()
                net.run_threads(conn)
            finally:
                net.uninstall()
            pub = c10.rsa_key()[0]
            want = java_hex(hashlib.sha1(sid.encode('utf-8') + secret + pub).digest())
            joins = [c[1] for c in calls if c[0] == 'join']
            chk.count('login-join', [sid, mode, pv], True)
            if not joins or any(j != want for j in joins):
                chk.violation('login-join', 'login-join:%r:%s' % (sid, mode), {'case': {'server_id': sid, 'session_service': mode, 'proto': pv}, 'expected': want, 'observed': calls},
                              'login to server id %r with a session service that %s: join() was called with %s; the hash is %s' % (sid, mode, joins, want))


def concurrent_joins(chk):
    """Several accounts log in from one process at the same time (one thread each, as a multi-bot client does): every join
    request the session service receives carries the access token and profile of ONE account together with a server hash that
    this account was given - never another account's hash."""
    import sys, threading, time, json
    from minecraft import authentication as A
    seconds = 2.5 if chk.tier == 'thorough' else 1.0
    toks = []
    for i in range(4):
        t = A.AuthenticationToken(username='user%d' % i, access_token='acc%d' % i, client_token='cli%d' % i)
        t.profile = A.Profile(id_='pid%d' % i, name='Name%d' % i)
        toks.append(t)
    seen, errors, issued = [], [], [0] * 4

    class Reply(object):
        status_code = 204
        text = ''

        def json(self):
            raise ValueError('no body')

    def post(url, data=None, headers=None, timeout=None, **kw):
        seen.append((url, data))
        return Reply()
    real_post, old = A.requests.post, sys.getswitchinterval()
    A.requests.post = post
    stop = time.time() + seconds

    def body(i):
        n = 0
        try:
            while time.time() < stop:
                toks[i].join('%d:%d' % (i, n))
                n += 1
        except Exception as e:
            errors.append(exn_name(e))
        issued[i] = n
    try:
        sys.setswitchinterval(1e-6)
        ts = [threading.Thread(target=body, args=(i,)) for i in range(4)]
        for t in ts:
            t.start()
        for t in ts:
            t.join(60)
    finally:
        sys.setswitchinterval(old)
        A.requests.post = real_post
    chk.count('concurrent-joins', [4, 'threads'], True)
    what = None
    if errors:
        what = 'join raised %s' % errors[:3]
    else:
        per = [0] * 4
        for url, data in seen:
            try:
                d = json.loads(data)
                i = int(d['accessToken'][3:])
                ok = d['selectedProfile'] == {'id': 'pid%d' % i, 'name': 'Name%d' % i} and d['serverId'].split(':')[0] == str(i) and url.endswith('/join')
                per[i] += 1
            except Exception:
                ok = False
            if not ok:
                what = 'a join request reached the service as %s' % str(data)[:200]
                break
        if what is None and per != issued:
            what = 'requests per account %s; joins made %s' % (per, issued)
    if what:
        chk.violation('concurrent-joins', 'concurrent-joins', {'case': {'threads': 4, 'joins': issued}, 'observed': what},
                      'four accounts joining from four threads (%d joins): %s' % (sum(issued), what))


def run(chk):
    common.standard_proof(chk, 'Properties/C17.v')
    from minecraft.networking import encryption
    rng = chk.rng
    cases = [('Notch', b'', b''), ('jeb_', b'', b''), ('simon', b'', b''), ('', b'', b''), ('-', b'\x00' * 16, b'')]
    sh = shapes(rng, 6 if chk.tier == 'quick' else 40)
    for k, v in sh.items():
        for c in v:
            cases.append(c)
            chk.tally('shape:' + k)
    pool = ['', 'a', 'é', 'ß', '日本', '😀', '߿ࠀ', 'srvé中', '\x7f\x80', 'Ω' * 20,
            # ids that are not in Unicode normal form C / KC (hashed as sent, never normalised)
            'e\u0301', 'A\u030a', '\u212b', '\u2126', '\uf900', '\u1100\u1161', 'a\u0323\u0307', 'a\u0307\u0323', '\ufb01', '\uff21', '\u00b5']
    for _ in range(2000 if chk.tier == 'thorough' else 300):
        sid = rng.choice(pool) + ''.join(chr(rng.choice([rng.randrange(32, 127), rng.randrange(0xa0, 0x800), rng.randrange(0x800, 0xd800), rng.randrange(0x10000, 0x11000)])) for _ in range(rng.randrange(0, 12)))
        secret = bytes(rng.randrange(256) for _ in range(16))
        key = bytes(rng.randrange(256) for _ in range(rng.choice([0, 1, 55, 56, 63, 64, 65, 162, 294])))
        cases.append((sid, secret, key))
    # the key is hashed as the BYTES the server sent, whatever their encoding: real RSA keys in every encoding a parser
    # would accept (canonical SubjectPublicKeyInfo DER, PKCS#1 RSAPublicKey DER, SPKI with the NULL parameters left out,
    # PEM text, DER with trailing bytes)
    for kb in key_encodings(rng):
        cases.append((rng.choice(['', '-', 'srv']), bytes(rng.randrange(256) for _ in range(16)), kb))
        chk.tally('key:real-rsa-encoding')
    model = run_model([('verification_hash', [[ord(c) for c in sid], secret, key]) for sid, secret, key in cases])
    for (sid, secret, key), m in zip(cases, model):
        chk.count('hash', [sid, secret.hex(), key.hex()], True)
        m = res_decode(m, lambda r: ''.join(map(chr, r)))
        # the secret and the key are bytes-like: bytes, bytearray and memoryview hash alike
        shape_s, shape_k = rng.choice([bytes, bytes, bytearray, memoryview]), rng.choice([bytes, bytes, bytearray, memoryview])
        if rng.random() < 0.25:
            # an earlier call that fails half-way (text or nothing where bytes are due) leaves nothing behind for the next one
            for bad_args in ((sid or 'x', 'not bytes', key), (sid or 'x', secret, None), ('x' * 5, None, None)):
                try:
                    encryption.generate_verification_hash(*bad_args)
                except Exception:
                    pass
        try:
            got = ['ok', encryption.generate_verification_hash(sid, shape_s(secret), shape_k(key))]
        except Exception as e:
            got = ['err', exn_name(e)]
        exp = list(m)
        oracle = java_hex(hashlib.sha1(sid.encode('utf-8') + secret + key).digest())
        bad = None
        if got != exp:
            bad = 'gave %r; model %r' % (got, exp)
        elif got[1] != oracle:
            bad = 'gave %r; Java BigInteger semantics give %r' % (got[1], oracle)
        if bad:
            chk.violation('hash', 'hash:%r' % ((sid, secret.hex(), key.hex()),), {'case': {'server_id': sid, 'secret': secret.hex(), 'key': key.hex()}, 'expected': oracle, 'observed': got},
                          'generate_verification_hash(%r, ...) %s' % (sid, bad))
    # the same through the wire: an encryption request with that server id and key is decoded by the real packet class, and the
    # hash is made from what the decoder returned - it must be the hash of the id and key the server SENT
    import proto
    from minecraft.networking.packets import clientbound as cb, PacketBuffer
    from minecraft.networking.connection import ConnectionContext
    ctx = ConnectionContext(protocol_version=757)
    wired = [c for c in cases if len(c[0]) < 200][:80] + [('\ufeffsrv', b'k' * 16, b'\x30\x03abc'), ('\ufeff', b'k' * 16, b''), ('\ufeff-', b'k' * 16, b'\x01'),
                                                          ('srv\ufeff', b'k' * 16, b'\x02'), (' srv ', b'k' * 16, b'\x03'), ('\u200bsrv', b'k' * 16, b''), ('-\n', b'k' * 16, b'')]
    for sid, secret, key in wired:
        body = proto.string(sid) + proto.varint(len(key)) + key + proto.varint(4) + b'tokn'
        pb = PacketBuffer()
        pb.send(body)
        pb.reset_cursor()
        pk = cb.login.EncryptionRequestPacket(context=ctx)
        chk.count('hash-from-wire', [sid, key.hex()[:40]], True)
        try:
            pk.read(pb)
            got = encryption.generate_verification_hash(pk.server_id, secret, pk.public_key)
        except Exception as e:
            got = 'raised ' + exn_name(e)
        oracle = java_hex(hashlib.sha1(sid.encode('utf-8') + secret + key).digest())
        if got != oracle:
            chk.violation('hash-from-wire', 'wire:%r' % (sid,), {'case': {'server_id': sid, 'server_id_utf8': sid.encode('utf-8').hex(), 'secret': secret.hex(), 'key': key.hex()[:200]}, 'expected': oracle, 'observed': got},
                          'encryption request with server id %r decoded by the real packet class: the hash made from the decoded fields is %s; the hash of what the server sent is %s' % (sid, got, oracle))
    login_joins(chk, java_hex)
    concurrent_joins(chk)
    chk.sample('hash', {'server_id': 'Notch', 'hash': encryption.generate_verification_hash('Notch', b'', b'')}, k=1)
    # arbitrary digests through the formatting function
    digs = [bytes([0] * 20), bytes([0xff] * 20), bytes([0x80] + [0] * 19), bytes([0x7f] + [0xff] * 19), bytes([0] * 19 + [1]),
            bytes([0, 0x80] + [0] * 18), bytes([0, 0x7f] + [1] * 18), bytes([0x0f] + [0] * 19), bytes([0xf0] + [0] * 19), bytes([0] * 10 + [0xff] * 10)]
    for _ in range(3000 if chk.tier == 'thorough' else 400):
        z = rng.choice([0, 0, 1, 2, 5])
        digs.append(bytes([0] * z + [rng.randrange(256) for _ in range(20 - z)]))
    model = run_model([('mc_hex', [d]) for d in digs])
    for d, m in zip(digs, model):
        chk.count('digest', d.hex(), True)
        exp = ''.join(map(chr, m))
        got = encryption.minecraft_sha1_hash_digest(FakeHash(d))
        if got != exp or got != java_hex(d):
            chk.violation('digest', 'digest:' + d.hex(), {'case': {'digest': d.hex()}, 'expected': java_hex(d), 'observed': got},
                          'minecraft_sha1_hash_digest(%s) = %r; Java: %r' % (d.hex(), got, java_hex(d)))
    chk.assumptions += ['hashlib.sha1 validated against the Gallina SHA-1 on every case, not verified', 'int.from_bytes / format(n, "x") are CPython library code']


def replay(chk, rp):
    run(chk)
