"""C16 - connection lifecycle: one active thread, clean refusal, always reusable."""
import itertools
import common, sim, sched, proto
from common import run_model, exn_name

RULE = ('(a) single-threaded call histories of length up to 6 over {connect, status, disconnect, disconnect(immediate), let the pending '
        'networking thread run} against servers that accept (stay up), refuse the TCP connection, send a disconnect packet, or fail '
        '(garbage / end of stream), including a listener that disconnects and reconnects and an exception handler that reconnects, on '
        'the real Connection through the simulated transport: the result of every call (returns / InvalidState / refused), the activity '
        'predicate and the number of TCP connections after every step are compared with the extracted lifecycle model; (b) two user '
        'threads issuing connect / status / disconnect under the cooperative scheduler (schedule enumeration up to 2 preemptions and '
        'seeded random walks): never two networking threads inside the read/write loop, only InvalidState is ever raised to a caller, '
        'disconnect() never raises, every networking thread terminates after the final disconnect and the object can connect again. '
        'Non-trivial = history with at least one refusal or reconnect; distinct by history / schedule.')

OPS = ['connect', 'status', 'disconnect', 'disconnect_imm', 'run']
SERVERS = ['accept', 'refuse', 'disconnect', 'fail', 'eof', 'disconnect-enc']
SECRET = bytes(range(50, 66))
_ENC = {}


def server_for(kind, ids, status_mode):
    if kind == 'refuse':
        return sim.Server([], refuse=True)
    if status_mode:
        import json
        kind = 'disconnect' if kind == 'disconnect-enc' else kind
        st = proto.frame(0, proto.string(json.dumps({'version': {'name': 'x', 'protocol': 757}})))
        return {'accept': sim.Server([], end='idle'), 'disconnect': sim.Server([st], end='idle'),
                'fail': sim.Server([b'\xff\xff\xff\xff\xff\xff\xff'], end='idle'), 'eof': sim.Server([], end='eof')}[kind]
    ok = proto.frame(ids.login_success, ids.b_login_success())
    if kind == 'disconnect-enc':
        # an encrypted session that the server ends: encryption request in the clear, everything after it under the cipher
        # (the shared secret is the recording fake's; the ciphertext comes from the model cipher)
        if 'wire' not in _ENC:
            import c10
            frames, cut = c10.build_server(ids, [('enc', '-', b'tokn'), ('success',)])
            plain = b''.join(frames) + proto.frame(ids.play_disconnect, proto.string('{"text":"bye"}'))
            _ENC['wire'] = plain[:cut] + bytes(run_model([('mc_encrypt', [SECRET, [plain[cut:]]])])[0][0])
        return sim.Server([_ENC['wire']], end='idle')
    return {'accept': sim.Server([ok], end='idle'),
            'disconnect': sim.Server([ok, proto.frame(ids.play_disconnect, proto.string('{"text":"bye"}'))], end='idle'),
            'fail': sim.Server([ok, b'\xff\xff\xff\xff\xff\xff\xff'], end='idle'),
            'eof': sim.Server([ok], end='eof')}[kind]


def sequential(chk, histories):
    from minecraft.networking.connection import Connection
    from minecraft.networking.packets import clientbound as cb
    from minecraft.exceptions import InvalidState
    ids = proto.Ids(757)
    reqs, metas = [], []
    for hist, servers_kinds, reconnect_mode in histories:
        net = sim.Net([], urandom=SECRET).install()
        acts, obs_results, obs_state = [], [], []
        try:
            handler_fired = []

            def handler(exc, info):
                handler_fired.append(exc)
                if reconnect_mode == 'handler' and len(handler_fired) == 1:
                    do_call('connect')
            conn = Connection('localhost', 25565, username='user', allowed_versions={757}, handle_exception=handler)
            lfired = []

            def listener(p):
                if reconnect_mode == 'listener' and not lfired:
                    lfired.append(1)
                    do_call('disconnect')
                    do_call('connect')
            conn.register_packet_listener(listener, cb.login.LoginSuccessPacket)
            kinds = iter(servers_kinds)
            import builtins

            def do_call(op):
                if op in ('connect', 'status'):
                    active = (conn.networking_thread is not None and not conn.networking_thread.interrupt) or conn.new_networking_thread is not None
                    if not active:
                        k = next(kinds, 'accept')
                        srv = server_for(k, ids, op == 'status')
                        srv.index = len(net.servers)
                        net.servers.append(srv)
                        srv.kind = k
                        ok = k != 'refuse'
                    else:
                        ok = True
                    acts.append([0, ok])
                    try:
                        rp = builtins.print
                        builtins.print = lambda *a, **k: None
                        try:
                            (conn.connect if op == 'connect' else conn.status)()
                        finally:
                            builtins.print = rp
                        obs_results.append(1)
                    except InvalidState:
                        obs_results.append(2)
                    except ConnectionRefusedError:
                        obs_results.append(3)
                    except Exception as e:
                        obs_results.append('raised:' + exn_name(e))
                else:
                    acts.append([1])
                    try:
                        conn.disconnect(immediate=(op == 'disconnect_imm'))
                        obs_results.append(1)
                    except Exception as e:
                        obs_results.append('raised:' + exn_name(e))

            def run_oldest():
                if not net.pending:
                    return
                t = net.pending[0]
                k = net.threads.index(t)
                srv = None
                # which TCP connection does this thread serve: the latest one opened when it was created
                will_end = t.interrupt or (t.previous_thread is not None and False)
                # a thread ends by itself if it is interrupted, or its server disconnects / fails / closes
                sk = getattr(t, 'server_kind', None)
                if not (t.interrupt or sk in ('disconnect', 'fail', 'eof', 'disconnect-enc')):
                    return                          # blocked in select for ever: stays alive
                net.pending.pop(0)
                t.sim_state = 'running'
                acts.append([2, k])
                nres = len(obs_results)
                pos = len(acts)
                exc_before = len(handler_fired)
                lf_before = len(lfired)
                try:
                    t.run()
                except sim.EndOfScript:
                    pass
                except Exception:
                    pass
                t.sim_state = 'done'
                # calls made from inside the thread (listener / handler / the reactor's own disconnect) were logged after [2,k];
                # the thread left the loop by an exception iff a handler fired
                faulted = len(handler_fired) > exc_before
                inner = acts[pos:]
                del acts[pos:]
                inner_res = obs_results[nres:]
                del obs_results[nres:]
                obs_results.append(0)                # ABegin
                by_listener = reconnect_mode == 'listener' and len(lfired) > lf_before
                if faulted:
                    # calls made by a listener happened before the fault, calls made by the handler after it
                    if by_listener:
                        acts.extend(inner + [[4, k], [5, k]])
                        obs_results.extend(inner_res + [0, 0])
                    else:
                        acts.extend([[4, k]] + inner + [[5, k]])
                        obs_results.extend([0] + inner_res + [0])
                else:
                    # a server disconnect packet (or a completed status query) makes the reactor call disconnect() itself
                    own = sk in ('disconnect', 'disconnect-enc') and not t_interrupted_before[0] and not by_listener
                    acts.extend(inner + ([[1]] if own else []) + [[3, k], [5, k]])
                    obs_results.extend(inner_res + ([1] if own else []) + [0, 0])
            t_interrupted_before = [False]
            # remember which server each thread talks to
            orig_start = net.start_hook

            def tag_thread(t):
                t.server_kind = getattr(net.servers[net.nconn - 1], 'kind', None) if net.nconn else None
                net.pending.append(t)
            net.start_hook = tag_thread
            for op in hist:
                if op == 'run':
                    if net.pending:
                        t_interrupted_before[0] = net.pending[0].interrupt
                    run_oldest()
                else:
                    do_call(op)
                active = (conn.networking_thread is not None and not conn.networking_thread.interrupt) or conn.new_networking_thread is not None
                obs_state.append((len(acts), active, sum(1 for e in net.log if e[0] == 'connect' and e[1] is not None and not net.servers[e[1]].refuse)))
        finally:
            net.uninstall()
        reqs.append(('lifecycle_run', [acts]))
        metas.append((hist, servers_kinds, reconnect_mode, acts, obs_results, obs_state))
    res = run_model(reqs)
    for (hist, kinds, mode, acts, obs_results, obs_state), r in zip(metas, res):
        results, final = r
        case = {'history': hist, 'servers': kinds, 'reconnect': mode, 'actions': acts}
        chk.count('sequential', [hist, kinds, mode], 2 in results or 3 in results or mode != 'none')
        chk.tally('seq:len=%d' % len(hist))
        if results != obs_results:
            k = next((i for i, (a, b) in enumerate(zip(results, obs_results)) if a != b), min(len(results), len(obs_results)))
            names = {0: '-', 1: 'returns', 2: 'InvalidState', 3: 'refused'}
            chk.violation('sequential', 'seq:%s' % (hash(repr(case)) % 10 ** 8), {'case': case, 'expected': results, 'observed': obs_results},
                          'history %s against servers %s (reconnect: %s): action %d (%s) gave %s, the lifecycle model gives %s' %
                          (hist, kinds, mode, k, acts[k] if k < len(acts) else None, names.get(obs_results[k], obs_results[k]) if k < len(obs_results) else None, names.get(results[k]) if k < len(results) else None))
            continue
        # final activity and TCP connection count
        act_impl, tcp_impl = obs_state[-1][1], obs_state[-1][2]
        if bool(final[5]) != act_impl or final[4] != tcp_impl:
            chk.violation('sequential', 'seq-state:%s' % (hash(repr(case)) % 10 ** 8), {'case': case, 'expected': {'active': bool(final[5]), 'tcp': final[4]}, 'observed': {'active': act_impl, 'tcp': tcp_impl}},
                          'history %s: afterwards the connection is %s with %d TCP connections made; the model says %s with %d' % (hist, 'active' if act_impl else 'inactive', tcp_impl, 'active' if final[5] else 'inactive', final[4]))


def concurrent_run(chk, progs, policy):
    """two user threads + networking threads under the cooperative scheduler; returns observations"""
    from minecraft.networking import connection as C
    from minecraft.networking.connection import Connection
    from minecraft.exceptions import InvalidState
    ids = proto.Ids(757)
    sc = sched.Sched()
    ok = proto.frame(ids.login_success, ids.b_login_success())
    net = sim.Net([sim.Server([ok], end='idle') for _ in range(12)], idle_limit=10 ** 9).install()
    undo = sched.instrument(C, sc)
    net.switch_hook = lambda what: sc.yield_point(what)
    next_tid = [100]

    def start_hook(t):
        tid = next_tid[0]
        next_tid[0] += 1
        t.worker = sc.spawn(tid, t.run, 'net%d' % tid)
    net.start_hook = start_hook
    def join_hook(t, timeout=None):
        # join() waits until the thread has finished; join(timeout) is a wait that may give up: a scheduling point after which
        # the caller goes on whether or not the thread has finished (the timeout is "shorter than whatever the other thread does")
        if t.worker.finished:
            return None
        return sc.yield_point('join', t.worker) if timeout is None else sc.yield_point('timed-join')
    net.join_hook = join_hook
    results, decisions = [], []
    try:
        conn = Connection('localhost', 25565, username='user', allowed_versions={757}, handle_exception=False)
        net.current_connection = conn

        def user(uid, ops):
            def body():
                for op in ops:
                    try:
                        if op == 'connect':
                            conn.connect()
                        elif op == 'status':
                            conn.status(handle_status=False)
                        else:
                            conn.disconnect(immediate=(op == 'disconnect_imm'))
                        results.append((uid, op, 'ok'))
                    except InvalidState:
                        results.append((uid, op, 'InvalidState'))
                    except Exception as e:
                        results.append((uid, op, 'raised:' + exn_name(e)))
            return body
        for i, ops in enumerate(progs):
            sc.spawn(i + 1, user(i + 1, ops))
        users = list(range(1, len(progs) + 1))
        cur, steps, preempt, final_done = None, 0, 0, False
        while steps < 3000:
            run_ = sc.runnable()
            live_users = [t for t in users if not sc.workers[t].finished]
            nets = [w for t, w in sc.workers.items() if t >= 100 and not w.finished]
            if not live_users and not final_done:
                # the final disconnect of the property: afterwards every networking thread must terminate
                final_done = True
                sc.spawn(99, user(99, ['disconnect']))
                continue
            if final_done and sc.workers[99].finished and all(w.pending[0] in ('select',) for w in nets) and not nets:
                break
            if final_done and sc.workers[99].finished and not nets:
                break
            if not run_:
                break
            polling = cur is not None and cur in sc.workers and sc.workers[cur].pending[0] == 'select'
            others = [t for t in run_ if t != cur]
            default = cur if (cur in run_ and not polling) else (others[0] if others else run_[0])
            t = policy(len(decisions), run_, default)
            if t not in run_:
                t = default
            if cur in run_ and not polling and t != cur:
                preempt += 1
            decisions.append((run_, default, t, cur in run_ and not polling))
            sc.step(t)
            cur = t
            steps += 1
        leftover = [t for t, w in sc.workers.items() if t >= 100 and not w.finished]
        stuck = not sc.runnable() and bool(sc.live())
        # afterwards the same object can connect again
        reconnect = None
        if not leftover:
            try:
                net.start_hook = lambda t: None
                conn.connect()
                reconnect = 'ok'
            except Exception as e:
                reconnect = exn_name(e)
    finally:
        sc.kill_all()
        undo()
        net.switch_hook = net.join_hook = net.start_hook = None
        net.uninstall()
    # loop occupancy from the enter / exit events
    inside, overlap = set(), False
    for kind, t in net.loop_events:
        if kind == 'enter':
            if inside:
                overlap = True
            inside.add(id(t))
        else:
            inside.discard(id(t))
    tcp = sum(1 for e in net.log if e[0] == 'connect') - (1 if reconnect == 'ok' else 0)
    return dict(results=results, overlap=overlap, leftover=leftover, stuck=stuck, reconnect=reconnect, preempt=preempt, tcp=tcp,
                decisions=decisions, errors={t: exn_name(w.error) for t, w in sc.workers.items() if w.error not in (None, 'end-of-script') and not isinstance(w.error, sim.EndOfScript)},
                nthreads=next_tid[0] - 100)


def check_concurrent(chk, progs, o, label):
    case = {'programs': progs, 'schedule': [d[2] for d in o['decisions']][:300], 'preemptions': o['preempt']}
    what = None
    bad = [r for r in o['results'] if r[2].startswith('raised')]
    if o['overlap']:
        what = 'two networking threads were inside the read/write loop at the same time'
    elif bad:
        what = '%s() raised %s to its caller' % (bad[0][1], bad[0][2][7:])
    elif any(r[1].startswith('disconnect') and r[2] != 'ok' for r in o['results']):
        what = 'disconnect() did not return normally'
    elif o['tcp'] != sum(1 for r in o['results'] if r[1] in ('connect', 'status') and r[2] == 'ok'):
        what = '%d TCP connections were opened for %d accepted connect()/status() calls: a refused call disturbed the active connection' % (o['tcp'], sum(1 for r in o['results'] if r[1] in ('connect', 'status') and r[2] == 'ok'))
    elif o['stuck']:
        what = 'no thread can move although some have not finished (deadlock)'
    elif o['leftover']:
        what = 'networking threads %s did not terminate after the final disconnect' % o['leftover']
    elif o['reconnect'] != 'ok':
        what = 'after everything ended, connect() on the same object gave %s' % o['reconnect']
    elif o['errors']:
        what = 'a thread ended with an unexpected exception: %s' % o['errors']
    if what:
        chk.violation(label, '%s:%s' % (label, hash(repr(case)) % 10 ** 8), {'case': case, 'observed': {'results': o['results'], 'threads': o['nthreads']}}, '%s, %d preemptions: %s' % (progs, o['preempt'], what))


def negotiated_lifecycles(chk):
    """Lifecycles of a connection that negotiates its version (several allowed versions): the status query goes unanswered, the
    documented fallback logs in with the default version, and the same object is then disconnected and connected again, twice.
    Every call returns normally, each connect() leaves the connection active, and nothing depends on HOW the default version was
    named - by protocol number, by version name, or not at all (the latest allowed one)."""
    from minecraft.networking.connection import Connection
    import json, builtins, c09
    outcomes = {}
    for label, allowed, initial, dflt in (('number', [340, 757], 340, 340), ('name', ['1.12.2', '1.18.1'], '1.12.2', 340), ('name+number', [340, 757], '1.12.2', 340),
                                          ('latest', [340, 757], None, 757), ('latest-by-name', ['1.12.2', '1.18.1'], None, 757)):
        servers = []
        ids = proto.Ids(dflt)
        servers.append(sim.Server([], end='eof'))                                                        # the status query: the server closes
        for rnd in range(3):
            servers.append(sim.Server([proto.frame(ids.login_success, ids.b_login_success()), proto.frame(ids.keep_alive, ids.b_keep_alive(5 + rnd))], end='idle'))
        net = sim.Net(servers).install()
        log, excs = [], []
        rp = builtins.print
        builtins.print = lambda *a, **k: None
        try:
            conn = Connection('localhost', 25565, username='user', allowed_versions=allowed, initial_version=initial, handle_exception=lambda e, i: excs.append(e))
            for rnd in range(3):
                for op in ('connect', 'run', 'disconnect'):
                    try:
                        if op == 'connect':
                            conn.connect()
                        elif op == 'run':
                            net.run_threads(conn)
                        else:
                            conn.disconnect()
                            net.run_threads(conn)
                        active = (conn.networking_thread is not None and not conn.networking_thread.interrupt) or conn.new_networking_thread is not None
                        log.append([op, 'ok', bool(active) if op != 'run' else None])
                    except Exception as e:
                        log.append([op, 'raised ' + exn_name(e), None])
        except Exception as e:
            log.append(['construct', 'raised ' + exn_name(e), None])
        finally:
            builtins.print = rp
            net.uninstall()
        heads = []
        for s_ in servers:
            if s_.sends:
                try:
                    h = c09.parse_conn(None, b''.join(s_.sends))
                    heads.append([h[0], h[3]])
                except Exception as e:
                    heads.append(['unparseable', exn_name(e)])
        exp_log = [[op, 'ok', {'connect': True, 'run': None, 'disconnect': False}[op]] for _ in range(3) for op in ('connect', 'run', 'disconnect')]
        # the first connect negotiates (status query at the latest allowed version, unanswered, then the fallback); after the
        # fallback the connection is pinned to the default version and logs in directly
        exp_heads = [[757, 1], [dflt, 2], [dflt, 2], [dflt, 2]]
        chk.count('negotiated-lifecycle', [label], True)
        obs = {'calls': log, 'connections': heads, 'errors': [exn_name(e) for e in excs]}
        exp = {'calls': exp_log, 'connections': exp_heads, 'errors': []}
        outcomes[label] = obs
        if obs != exp:
            k = next(k for k in exp if obs[k] != exp[k])
            chk.violation('negotiated-lifecycle', 'negotiated-lifecycle:%s' % label, {'case': {'allowed_versions': allowed, 'initial_version': initial}, 'expected': exp, 'observed': obs},
                          'allowed_versions=%r initial_version=%r, status query unanswered, then disconnect/connect twice more: %s are %s; expected %s' % (allowed, initial, k, str(obs[k])[:300], str(exp[k])[:200]))


def reconnect_from_handler_after_compression(chk):
    """A session in which the server switched compression on ends with an error; an exception handler connects again at once
    (no disconnect() of its own): the successor is a fresh conversation - plain handshake and login start, it logs in, and the
    object can afterwards be disconnected and connected a third time."""
    from minecraft.networking.connection import Connection
    import c09
    for pv in (47, 340, 757):
        ids = proto.Ids(pv)
        for thr, how in ((64, 'eof'), (0, 'eof'), (256, 'garbage')):
            first = [proto.frame(ids.set_compression, proto.varint(thr)), proto.frame(ids.login_success, ids.b_login_success(), thr)]
            ok = [proto.frame(ids.login_success, ids.b_login_success()), proto.frame(ids.keep_alive, ids.b_keep_alive(3))]
            servers = [sim.Server([b''.join(first) + (b'' if how == 'eof' else b'\xff\xff\xff\xff\xff\xff\xff')], end='eof' if how == 'eof' else 'idle'),
                       sim.Server([b''.join(ok)], end='idle'), sim.Server([b''.join(ok)], end='idle')]
            net = sim.Net(servers).install()
            excs, log = [], []

            def handler(e, info):
                excs.append(e)
                if len(excs) == 1:
                    conn.connect()
            try:
                conn = Connection('localhost', 25565, username='user', allowed_versions={pv}, handle_exception=handler)
                conn.connect()
                net.run_threads(conn)
                log.append('in play: %s' % bool(conn.connected))
                conn.disconnect()
                net.run_threads(conn)
                conn.connect()
                net.run_threads(conn)
                log.append('third connection made')
            except Exception as e:
                log.append('raised ' + exn_name(e))
            finally:
                net.uninstall()
            chk.count('handler-reconnect', [pv, thr, how], True)
            heads = []
            for srv in servers[1:]:
                try:
                    h = c09.parse_conn(None, b''.join(srv.sends))
                    heads.append([h[0], h[3], h[4][0] if h[4] else None])
                except Exception as e:
                    heads.append(['unparseable', exn_name(e), b''.join(srv.sends)[:10].hex()])
            exp_heads = [[pv, 2, 'login_start'], [pv, 2, 'login_start']]
            if heads != exp_heads or log != ['in play: True', 'third connection made'] or len(excs) != 1:
                chk.violation('handler-reconnect', 'handler-reconnect:%d:%d:%s' % (pv, thr, how), {'case': {'proto': pv, 'threshold': thr, 'first_session_ends_by': how}, 'expected': exp_heads, 'observed': {'connections': heads, 'calls': log, 'errors': [exn_name(e) for e in excs]}},
                              'protocol %d, session with compression threshold %d ends by %s, the handler connects again: later connections open with %s, calls %s, errors %s' % (
                                  pv, thr, how, heads, log, [exn_name(e) for e in excs]))


def run(chk):
    # (the library's default status handler prints; nothing the connections print belongs in the check's output)
    import builtins
    rp, builtins.print = builtins.print, (lambda *a, **k: None)
    try:
        run_(chk)
    finally:
        builtins.print = rp


def run_(chk):
    common.standard_proof(chk, 'Properties/C16.v')
    rng, th = chk.rng, chk.tier == 'thorough'
    hist = []
    base = ['connect', 'status', 'disconnect', 'disconnect_imm', 'run']
    if th:
        for n in range(1, 5):
            for h in itertools.product(base, repeat=n):
                hist.append((list(h), [rng.choice(SERVERS) for _ in range(6)], 'none'))
    for n in range(1, 4):
        for h in itertools.product(base, repeat=n):
            for kinds in (['accept'] * 6, ['refuse', 'accept', 'disconnect', 'fail'], ['disconnect', 'fail', 'eof', 'accept']):
                hist.append((list(h), kinds, 'none'))
    # a connection that ended with a backlog / by an immediate disconnect, then a refused reconnect, then disconnects
    for h in (['connect', 'disconnect_imm', 'connect', 'disconnect', 'disconnect_imm', 'connect'], ['connect', 'run', 'connect', 'disconnect', 'connect', 'run'],
              ['status', 'disconnect_imm', 'connect', 'disconnect', 'status']):
        for kinds in (['disconnect', 'refuse', 'accept', 'fail'], ['accept', 'refuse', 'refuse', 'accept'], ['fail', 'refuse', 'eof', 'accept']):
            hist.append((h, kinds, 'none'))
    for h in (['connect', 'run', 'connect', 'disconnect', 'disconnect', 'connect', 'run'], ['connect', 'run', 'connect', 'disconnect_imm', 'connect'],
              ['connect', 'run', 'disconnect', 'connect', 'disconnect', 'disconnect']):
        hist.append((h, ['disconnect-enc', 'refuse', 'disconnect-enc', 'accept'], 'none'))
        hist.append((h, ['disconnect-enc', 'refuse', 'refuse', 'accept'], 'none'))
    for _ in range(1500 if th else 300):
        n = rng.randrange(3, 7)
        hist.append(([rng.choice(base) for _ in range(n)], [rng.choice(SERVERS) for _ in range(6)], rng.choice(['none', 'none', 'listener', 'handler'])))
    sequential(chk, hist)
    negotiated_lifecycles(chk)
    reconnect_from_handler_after_compression(chk)
    # two user threads
    small = [[['connect'], ['connect']], [['connect', 'disconnect'], ['connect']], [['connect'], ['disconnect', 'connect']],
             [['status'], ['connect']], [['connect', 'disconnect', 'connect'], ['disconnect']]]
    import c12
    for progs in small:
        stack, done = [[]], 0
        while stack and done < (150 if th else 25):
            plan = stack.pop()
            o = concurrent_run(chk, progs, lambda k, r, d, plan=plan: plan[k] if k < len(plan) else d)
            done += 1
            chk.count('concurrent', [progs, [d[2] for d in o['decisions']]], o['preempt'] >= 1)
            check_concurrent(chk, progs, o, 'concurrent')
            pre = 0
            for k, (runnable, default, chosen, cur_run) in enumerate(o['decisions']):
                if k >= len(plan):
                    for alt in runnable:
                        if alt != chosen and pre + (1 if cur_run else 0) <= 2:
                            stack.append([d[2] for d in o['decisions'][:k]] + [alt])
                if cur_run and k > 0 and chosen != o['decisions'][k - 1][2]:
                    pre += 1
    # schedules kept from earlier findings run first, on every run (the real code may take fewer steps than the plan: the rest
    # of the plan is then ignored and the default policy continues)
    import os, json
    cpath = os.path.join(common.VERIF, 'corpus', 'c16_schedules.json')
    if os.path.exists(cpath):
        for item in json.load(open(cpath)):
            plan = item['schedule']
            o = concurrent_run(chk, item['programs'], lambda k, r, d, plan=plan: plan[k] if k < len(plan) else d)
            chk.count('concurrent-corpus', [item['programs'], plan], True)
            check_concurrent(chk, item['programs'], o, 'concurrent-corpus')
    # a predecessor that is slow to finish: the scheduler always prefers the newest networking thread, then the user threads,
    # and runs an older networking thread only when nothing else can move (a successor that waits properly cannot move)
    starve = lambda k, r, d: max(r) if max(r) >= 101 else (min(r) if min(r) < 99 else d)
    for progs in ([['connect', 'disconnect', 'connect']], [['connect', 'disconnect', 'connect', 'disconnect', 'connect']], [['status', 'disconnect', 'connect']],
                  [['connect', 'disconnect'], ['connect']], [['connect', 'disconnect_imm', 'connect'], ['disconnect']]):
        import builtins
        rp, builtins.print = builtins.print, (lambda *a, **k: None)
        try:
            o = concurrent_run(chk, progs, starve)
        finally:
            builtins.print = rp
        chk.count('concurrent-starved', [progs, [d[2] for d in o['decisions']]], True)
        check_concurrent(chk, progs, o, 'concurrent-starved')
    for _ in range(200 if th else 40):
        progs = [[rng.choice(['connect', 'connect', 'status', 'disconnect', 'disconnect_imm']) for _ in range(rng.randrange(1, 4))] for _ in range(2)]
        o = concurrent_run(chk, progs, c12.random_policy(rng, rng.choice([0.4, 0.7])))
        chk.count('concurrent-random', [progs, [d[2] for d in o['decisions']]], o['preempt'] >= 1)
        check_concurrent(chk, progs, o, 'concurrent-random')
    chk.assumptions += ['PARTIAL: atomicity granularity and Thread.join semantics are assumed (connect / status / disconnect hold the connection lock throughout, so each is one atomic action of the model)',
                        'the two-thread suite checks the property\'s observable consequences on the real code under explored schedules; the model comparison is made on the single-threaded histories']


def replay(chk, rp):
    run(chk)
