"""Emits Gen/Tables.v: class list, membership / id / definition ladders over the chronological
version index, supported indices, known-finding exceptions.  Ladders are re-expanded and compared
with the raw evaluation before being written."""
import os, json
import common
from gen import id_code, zl

TABLE_NAMES = ['clientbound.handshake', 'clientbound.status', 'clientbound.login', 'clientbound.play',
               'serverbound.handshake', 'serverbound.status', 'serverbound.login', 'serverbound.play']

SIMPLE = {'Boolean': 'TBool', 'UnsignedByte': 'TUByte', 'Byte': 'TByte', 'Short': 'TShort', 'UnsignedShort': 'TUShort',
          'Integer': 'TInt', 'Long': 'TLong', 'UnsignedLong': 'TULong', 'Float': 'TFloat', 'Double': 'TDouble',
          'VarInt': 'TVarInt', 'VarLong': 'TVarLong', 'String': 'TString', 'UUID': 'TUUID', 'Angle': 'TAngle',
          'ShortPrefixedByteArray': 'TShortBytes', 'VarIntPrefixedByteArray': 'TVarBytes', 'TrailingByteArray': 'TTrailing',
          'Position': 'TPosition', 'NBT': 'TNBT'}

CUSTOM_TYPES = ['clientbound.play.explosion_packet:ExplosionPacket.Record',
                'clientbound.play.block_change_packet:MultiBlockChangePacket.ChunkSectionPos',
                'clientbound.play.block_change_packet:MultiBlockChangePacket.Record',
                'clientbound.play.sound_effect_packet:SoundEffectPacket.EffectPosition',
                'clientbound.play.sound_effect_packet:SoundEffectPacket.Pitch']


CUSTOM_PACKETS = ['serverbound.login:PluginResponsePacket', 'clientbound.play.face_player_packet:FacePlayerPacket',
                  'clientbound.play.combat_event_packet:CombatEventPacket', 'clientbound.play.spawn_object_packet:SpawnObjectPacket',
                  'clientbound.play.player_list_item_packet:PlayerListItemPacket', 'clientbound.play.map_packet:MapPacket']


CORE_PACKETS = ['serverbound.handshake:HandShakePacket', 'serverbound.status:RequestPacket', 'clientbound.status:ResponsePacket',
                'serverbound.status:PingPacket', 'clientbound.status:PingResponsePacket', 'serverbound.login:LoginStartPacket',
                'clientbound.login:LoginSuccessPacket', 'clientbound.login:DisconnectPacket', 'clientbound.login:SetCompressionPacket',
                'clientbound.login:EncryptionRequestPacket', 'serverbound.login:EncryptionResponsePacket', 'clientbound.play:KeepAlivePacket',
                'serverbound.play:KeepAlivePacket', 'clientbound.play.join_game_and_respawn_packets:JoinGamePacket',
                'clientbound.play:ChatMessagePacket', 'serverbound.play:ChatPacket',
                'clientbound.play.player_position_and_look_packet:PlayerPositionAndLookPacket', 'serverbound.play:PositionAndLookPacket',
                'serverbound.play:TeleportConfirmPacket', 'clientbound.play:DisconnectPacket']


def class_list(t):
    cl = set()
    for p in t['per_version']:
        cl |= set(p['classes'])
    return sorted(cl)


def ftype(ty):
    if ty[0] in SIMPLE:
        return SIMPLE[ty[0]]
    if ty[0] == 'Fixed':
        return '(TFixed %s %d)' % (ftype(ty[1]), ty[2])
    if ty[0] == 'Array':
        return '(TArray %s %s)' % (ftype(ty[1]), ftype(ty[2]))
    if ty[0] == 'Custom':
        if ty[1] not in CUSTOM_TYPES:
            raise RuntimeError('field type %s has no hand model (fail closed)' % ty[1])
        return '(TCustom %d)' % CUSTOM_TYPES.index(ty[1])
    raise RuntimeError('unknown type %r' % (ty,))


def rle(seq):
    out = []
    for i, v in enumerate(seq):
        if not out or out[-1][1] != v:
            out.append((i, v))
    return out


def unrle(l, n):
    out = []
    for k, (i, v) in enumerate(l):
        j = l[k + 1][0] if k + 1 < len(l) else n
        out += [v] * (j - i)
    return out


def collisions(t):
    """All (proto, table, id, classA, classB) with two members sharing an id, on supported versions,
    plus members without a usable id.  (The executable oracle used for the search and for known findings.)"""
    sup = set(t['supported_protocols'])
    res = []
    for vi, (pv, p) in enumerate(zip(t['known_protocols'], t['per_version'])):
        for tn in TABLE_NAMES:
            ms = p['tables'][tn]
            if ms and isinstance(ms[0], str) and ms[0].startswith('!'):
                res.append({'proto': pv, 'supported': pv in sup, 'table': tn, 'kind': 'get_packets raised ' + ms[0][1:]})
                continue
            byid = {}
            for c in ms:
                i = p['classes'][c]['id']
                if not isinstance(i, int) or i < 0:
                    res.append({'proto': pv, 'supported': pv in sup, 'table': tn, 'kind': 'no id', 'class': c, 'id': i})
                else:
                    byid.setdefault(i, []).append(c)
            for i, cs in sorted(byid.items()):
                if len(cs) > 1:
                    res.append({'proto': pv, 'supported': pv in sup, 'table': tn, 'kind': 'collision', 'id': i, 'classes': sorted(cs)})
    return res


def finding_key(c):
    if c['kind'] == 'collision':
        return 'collision:%d:%s:0x%02X:%s' % (c['proto'], c['table'], c['id'], ','.join(x.split(':')[-1] for x in c['classes']))
    if c['kind'] == 'no id':
        return 'noid:%d:%s:%s' % (c['proto'], c['table'], c['class'].split(':')[-1])
    return 'table:%d:%s' % (c['proto'], c['table'])


def gen_tables(t, outdir):
    classes = class_list(t)
    cidx = {c: i for i, c in enumerate(classes)}
    n = len(t['known_protocols'])
    per = t['per_version']
    L = ['From Coq Require Import ZArith List.', 'From PyCraft Require Import Model.Tables.',
         'Import ListNotations.', 'Open Scope Z_scope.', '']
    L.append('Definition nversions : Z := %d.' % n)
    L.append('Definition protos : list Z := %s.' % zl(t['known_protocols']))
    pos = {p: i for i, p in enumerate(t['known_protocols'])}
    L.append('Definition supported_idx : list Z := %s.' % zl([pos[p] for p in t['supported_protocols']]))
    L.append('Definition all_idx : list Z := %s.' % zl(list(range(n))))
    for i, c in enumerate(classes):
        L.append('(* class %d = %s *)' % (i, c))
    L.append('Definition nclasses : Z := %d.' % len(classes))
    # membership
    ent = []
    for ti, tn in enumerate(TABLE_NAMES):
        seq = []
        for p in per:
            ms = p['tables'][tn]
            if ms and ms[0].startswith('!'):
                seq.append(None)
            else:
                seq.append(tuple(cidx[c] for c in ms))
        lad = rle(seq)
        assert unrle(lad, n) == seq
        ent.append('  (%d, [%s])' % (ti, '; '.join('(%d, %s)' % (i, 'None' if v is None else 'Some ' + zl(list(v))) for i, v in lad)))
    L.append('Definition members_l : list (Z * ladder (option (list Z))) := [\n' + ';\n'.join(ent) + '\n].')
    # ids
    ent = []
    for c in classes:
        seq = []
        for p in per:
            e = p['classes'].get(c)
            seq.append(e['id'] if e is not None and isinstance(e['id'], int) else None)
        lad = rle(seq)
        assert unrle(lad, n) == seq
        ent.append('  (%d, [%s])' % (cidx[c], '; '.join('(%d, %s)' % (i, 'None' if v is None else 'Some (%d)' % v) for i, v in lad)))
    L.append('Definition ids_l : list (Z * ladder (option Z)) := [\n' + ';\n'.join(ent) + '\n].')
    # definitions (None = class absent, custom, or definition unavailable)
    ent = []
    custom = []
    for c in classes:
        seq = []
        is_custom = False
        for p in per:
            e = p['classes'].get(c)
            if e is None:
                seq.append(None)
            elif e['custom_read'] or e['custom_write']:
                is_custom = True
                seq.append(None)
            elif isinstance(e['def'], list):
                seq.append('[' + '; '.join('(%d, %s)' % (id_code(nm), ftype(ty)) for nm, ty in e['def']) + ']')
            else:
                seq.append(None)
        if is_custom:
            custom.append(cidx[c])
        lad = rle(seq)
        assert unrle(lad, n) == seq
        ent.append('  (%d, [%s])' % (cidx[c], '; '.join('(%d, %s)' % (i, 'None' if v is None else 'Some ' + v) for i, v in lad)))
    L.append('Definition defs_l : list (Z * ladder (option defn)) := [\n' + ';\n'.join(ent) + '\n].')
    L.append('Definition custom_classes : list Z := %s.' % zl(custom))
    L.append('Definition custom_modelled : list Z := %s.' % zl([cidx[c] for c in classes if c in CUSTOM_PACKETS]))
    L.append('Definition core_class : list (Z * Z) := [%s].' % '; '.join('(%d, %d)' % (i, cidx[c]) for i, c in enumerate(CORE_PACKETS) if c in cidx))
    L.append('Definition members (tbl vi : Z) : list Z := match ladder_get (assoc members_l tbl []) vi None with Some l => l | None => [] end.')
    L.append('Definition members_defined (tbl vi : Z) : bool := match ladder_get (assoc members_l tbl []) vi None with Some _ => true | None => false end.')
    L.append('Definition id_of (c vi : Z) : option Z := ladder_get (assoc ids_l c []) vi None.')
    L.append('Definition def_of (c vi : Z) : option defn := ladder_get (assoc defs_l c []) vi None.')
    # known findings that still reproduce become explicit exceptions: (version index, table, class to skip)
    kf = [k for k in common.known_findings().get('open', []) if k.get('property') == 'C06']
    keys = {finding_key(c): c for c in collisions(t) if c['supported']}
    skips = []
    for k in kf:
        c = keys.get(k['key'])
        if c is not None and c['kind'] == 'collision':
            for cls in c['classes'][1:]:
                skips.append((pos[c['proto']], TABLE_NAMES.index(c['table']), cidx[cls]))
    L.append('Definition skips : list (Z * Z * Z) := [%s].' % '; '.join('(%d, %d, %d)' % s for s in skips))
    open(os.path.join(outdir, 'Tables.v'), 'w').write('\n'.join(L) + '\n')
    return classes
